---------------------------- MODULE CompilePasses ----------------------------
(***************************************************************************)
(* Mechanism model of asn1tools' in-place pre-processing                   *)
(* (asn1tools/codecs/compiler.py  Compiler.pre_process and its passes,     *)
(* asn1tools/compiler.py  compile_dict, asn1tools/__init__.py _do_parse).  *)
(*                                                                         *)
(* The specification dictionary is abstracted to a tree of per-member      *)
(* flag records (harness/drive_history.py abs_dict produces the same shape *)
(* from a real dictionary):                                                *)
(*                                                                         *)
(*   dictionary  M  = sequence of modules (in dict order)                  *)
(*   module      [name, tags, extimp, imports: Seq([from, names]),         *)
(*                types: Seq([name, node]), rest]                          *)
(*   node        [name, type, tag: [has, num, kind, cls, rest], opt,       *)
(*                def: [f, s, l, n, ns], hasItems, items, elem, vals,      *)
(*                nbits, hasParams, params, hasActuals, actuals, modname,  *)
(*                rest]                                                    *)
(*   item        [it: "M" member | "X" extension marker | "G" addition     *)
(*                group | "C" COMPONENTS OF, ns: Seq(node), ref]           *)
(*   def.f       "none" | "bool" | "null" | "int" | "name" | "bin" | "hex" *)
(*               | "names" (text forms written by the parser)              *)
(*               | "bits" | "octs" (converted forms written by a pass)     *)
(*   tag.kind    "" while the parser's tag has no kind (written by the tag *)
(*               pass), tag.has FALSE while there is no tag (AUTOMATIC)    *)
(*   rest        digest of every key no pass touches                       *)
(*                                                                         *)
(* Every pass is an operator  M -> M  (the default pass may raise).  The   *)
(* set S of *deviation* names selects, clause by clause, what the          *)
(* implementation really does (S = AllDevs) or the history-independent     *)
(* mechanism the property requires (S = {}):                               *)
(*                                                                         *)
(*  DevEnumDefaultInPlace   pre_process_default_value under numeric_enums  *)
(*      overwrites member['default'] of an ENUMERATED member by its number *)
(*      in the shared dictionary                                           *)
(*  DevEnumMarkerUnpack     ... and unpacks the '...' marker of the value  *)
(*      list as a pair (TypeError) when it meets it before a match         *)
(*  DevPformatSortsDicts    the parse sub-command serialises with sorted   *)
(*      dict keys: module and type order change                            *)
(*  DevModuleMajorPasses    the four passes run module by module, so a     *)
(*      COMPONENTS OF across modules copies members in whatever state the  *)
(*      other module is in (order dependent; C19's subject)                *)
(*  DevCompileInPlace       compile_dict pre-processes the caller's        *)
(*      dictionary itself (with it off: a private copy, the caller's       *)
(*      dictionary never changes and histories cannot matter)              *)
(*  DevDefaultsBeforeParameterization   parameterized types are            *)
(*      instantiated after the default pass: the defaults of instantiated  *)
(*      members are converted only by the *next* pre_process               *)
(***************************************************************************)
EXTENDS Bits, TLC

HistoryDevs == <<"DevEnumDefaultInPlace", "DevPformatSortsDicts", "DevDefaultsBeforeParameterization">>
MechanismDevs == <<"DevEnumMarkerUnpack", "DevModuleMajorPasses", "DevCompileInPlace">>
AllDevs == {HistoryDevs[i] : i \in 1..Len(HistoryDevs)} \cup {MechanismDevs[i] : i \in 1..Len(MechanismDevs)}

\* deliberately wrong clauses (model mutants, never part of a profile; spec/tests only):
\*   MutMarkerEveryRun   the EXTENSIBILITY IMPLIED pass appends a marker without looking for one
\*   MutTagsTwice        the AUTOMATIC TAGS pass numbers again, continuing after the tags already there

XItem == [it |-> "X", ns |-> <<>>, ref |-> ""]
NoDef == [f |-> "none", s |-> "", l |-> <<>>, n |-> 0, ns |-> <<>>]
NoTag == [has |-> FALSE, num |-> -1, kind |-> "", cls |-> "", rest |-> ""]

Idx(n) == [i \in 1..n |-> i]

\* index of the first element satisfying P, 0 if none
SeqIndex(s, P(_)) ==
  IF \E i \in 1..Len(s) : P(s[i])
  THEN CHOOSE i \in 1..Len(s) : P(s[i]) /\ \A j \in 1..(i - 1) : ~P(s[j])
  ELSE 0

InSeq(x, s) == \E i \in 1..Len(s) : s[i] = x

------------------------------------------------------------------------------
(* compiler.lookup_in_modules / resolve_type_descriptor / resolve_type_name *)

ModIdx(M, name) == SeqIndex(M, LAMBDA m : m.name = name)
TypeIdx(m, tn) == SeqIndex(m.types, LAMBDA t : t.name = tn)

RECURSIVE Lookup(_, _, _)
\* own types first, then the first import list naming the type
Lookup(M, tn, mi) ==
  LET ti == TypeIdx(M[mi], tn)
      no == [ok |-> FALSE, mi |-> 0, ti |-> 0]
  IN IF ti > 0 THEN [ok |-> TRUE, mi |-> mi, ti |-> ti]
     ELSE LET k == SeqIndex(M[mi].imports, LAMBDA im : InSeq(tn, im.names))
          IN IF k = 0 THEN no
             ELSE LET fi == ModIdx(M, M[mi].imports[k].from)
                  IN IF fi = 0 THEN no ELSE Lookup(M, tn, fi)

RECURSIVE ResolveNode(_, _, _)
\* follow type names for as long as they can be looked up
ResolveNode(M, n, mi) ==
  LET r == Lookup(M, n.type, mi)
  IN IF r.ok THEN ResolveNode(M, M[r.mi].types[r.ti].node, r.mi) ELSE n

ResolveName(M, tn, mi) ==
  LET r == Lookup(M, tn, mi)
  IN IF r.ok THEN ResolveNode(M, M[r.mi].types[r.ti].node, r.mi).type ELSE tn

SetTypes(M, mi, ts) == [M EXCEPT ![mi].types = ts]
SetNode(M, mi, ti, n) == [M EXCEPT ![mi].types[ti].node = n]

------------------------------------------------------------------------------
(* pass 1: pre_process_components_of (top-level types only; inner members   *)
(* are deep copies, nested expansion is not written back)                   *)

RECURSIVE ExpandItems(_, _, _)
ExpandItems(M, items, mi) ==
  Concat([j \in 1..Len(items) |->
    IF items[j].it = "C"
    THEN LET r == Lookup(M, items[j].ref, mi)
         IN IF ~r.ok THEN <<items[j]>>          \* CompileError: outside the modelled universe
            ELSE LET inner == ExpandItems(M, M[r.mi].types[r.ti].node.items, r.mi)
                     stop == SeqIndex(inner, LAMBDA x : x.it = "X")
                 IN IF stop = 0 THEN inner ELSE SubSeq(inner, 1, stop - 1)
    ELSE <<items[j]>>])

PassCO(M, mi) ==
  LET ts == M[mi].types
  IN SetTypes(M, mi, Force([t \in 1..Len(ts) |->
       IF ts[t].node.hasItems
       THEN [ts[t] EXCEPT !.node.items = ExpandItems(M, ts[t].node.items, mi)]
       ELSE ts[t]]))

------------------------------------------------------------------------------
(* pass 2: pre_process_extensibility_implied (recursion through members     *)
(* and groups, not through SEQUENCE OF elements)                            *)

RECURSIVE EINode(_, _)
EINode(n, S) ==
  IF ~n.hasItems THEN n
  ELSE LET its == Force([j \in 1..Len(n.items) |->
                    IF n.items[j].it \in {"M", "G"}
                    THEN [n.items[j] EXCEPT !.ns = Force([k \in 1..Len(n.items[j].ns) |-> EINode(n.items[j].ns[k], S)])]
                    ELSE n.items[j]])
           marked == \E j \in 1..Len(its) : its[j].it = "X"
       IN [n EXCEPT !.items = IF marked /\ "MutMarkerEveryRun" \notin S THEN its ELSE Append(its, XItem)]

PassEI(M, mi, S) ==
  IF ~M[mi].extimp THEN M
  ELSE LET ts == M[mi].types
       IN SetTypes(M, mi, Force([t \in 1..Len(ts) |-> [ts[t] EXCEPT !.node = EINode(ts[t].node, S)]]))

------------------------------------------------------------------------------
(* pass 3: pre_process_tags                                                 *)
(*   a tag without kind gets one: EXPLICIT for a CHOICE or a dummy          *)
(*   reference, else the module default (AUTOMATIC -> IMPLICIT);            *)
(*   under AUTOMATIC TAGS the members of a SEQUENCE/SET/CHOICE are numbered *)
(*   0.. only when no member (groups flattened) carries a tag               *)

RECURSIVE TagNode(_, _, _, _, _, _), TagItems(_, _, _, _, _, _)

TagNode(M, n, mt, mi, dummies, S) ==
  LET n1 == IF n.tag.has /\ n.tag.kind = ""
            THEN [n EXCEPT !.tag.kind =
                    IF ResolveName(M, n.type, mi) = "CHOICE" THEN "EXPLICIT"
                    ELSE IF InSeq(n.type, dummies) THEN "EXPLICIT"
                    ELSE IF mt \in {"IMPLICIT", "EXPLICIT"} THEN mt
                    ELSE "IMPLICIT"]
            ELSE n
      n2 == IF n1.hasItems THEN [n1 EXCEPT !.items = TagItems(M, n1.items, mt, mi, dummies, S)] ELSE n1
  IN IF n2.elem # <<>> THEN [n2 EXCEPT !.elem = <<TagNode(M, n2.elem[1], mt, mi, dummies, S)>>] ELSE n2

TagItems(M, items, mt, mi, dummies, S) ==
  LET anyTagged == \E j \in 1..Len(items) : \E k \in 1..Len(items[j].ns) : items[j].ns[k].tag.has
      auto == mt = "AUTOMATIC" /\ (~anyTagged \/ "MutTagsTwice" \in S)
      tagged == FoldLeft(LAMBDA acc, i : acc + Len(SelectSeq(items[i].ns, LAMBDA m : m.tag.has)), 0, Idx(Len(items)))
      base == IF "MutTagsTwice" \in S THEN tagged ELSE 0       \* mutant: numbering continues after the tags already there
      before == Force([j \in 1..Len(items) |->
                   FoldLeft(LAMBDA acc, i : acc + Len(items[i].ns), 0, Idx(j - 1))])
      one(m, num) ==
        TagNode(M, IF auto THEN [m EXCEPT !.tag = [has |-> TRUE, num |-> num,
                                                  kind |-> IF m.tag.has THEN m.tag.kind ELSE "",
                                                  cls |-> IF m.tag.has THEN m.tag.cls ELSE "",
                                                  rest |-> IF m.tag.has THEN m.tag.rest ELSE ""]]
                   ELSE m, mt, mi, dummies, S)
  IN Force([j \in 1..Len(items) |->
       [items[j] EXCEPT !.ns = Force([k \in 1..Len(items[j].ns) |-> one(items[j].ns[k], base + before[j] + k - 1)])]])

PassTAGS(M, mi, S) ==
  LET ts == M[mi].types
      mt == M[mi].tags
  IN SetTypes(M, mi, Force([t \in 1..Len(ts) |->
       [ts[t] EXCEPT !.node = TagNode(M, ts[t].node, mt, mi,
                                      IF ts[t].node.hasParams THEN ts[t].node.params ELSE <<>>, S)]]))

------------------------------------------------------------------------------
(* pass 4: pre_process_default_value                                        *)
(*   sites: for every SEQUENCE/SET node (pre-order over types, members,     *)
(*   groups, elements) its *direct* members that carry a default - members  *)
(*   inside an addition group are not looked at                             *)

\* a path is a sequence of <<j, k>>: k-th node of item j; j = 0 is the element
RECURSIVE NodeAt(_, _), SetNodeAt(_, _, _), ContainerPaths(_, _)

NodeAt(n, p) ==
  IF p = <<>> THEN n
  ELSE NodeAt(IF p[1][1] = 0 THEN n.elem[1] ELSE n.items[p[1][1]].ns[p[1][2]], Tail(p))

SetNodeAt(n, p, new) ==
  IF p = <<>> THEN new
  ELSE IF p[1][1] = 0 THEN [n EXCEPT !.elem = <<SetNodeAt(n.elem[1], Tail(p), new)>>]
  ELSE [n EXCEPT !.items[p[1][1]].ns[p[1][2]] = SetNodeAt(@, Tail(p), new)]

ContainerPaths(n, p) ==
  (IF n.type \in {"SEQUENCE", "SET"} THEN <<p>> ELSE <<>>)
  \o (IF n.hasItems
      THEN Concat([j \in 1..Len(n.items) |->
             Concat([k \in 1..Len(n.items[j].ns) |-> ContainerPaths(n.items[j].ns[k], Append(p, <<j, k>>))])])
      ELSE <<>>)
  \o (IF n.elem # <<>> THEN ContainerPaths(n.elem[1], Append(p, <<0, 1>>)) ELSE <<>>)

NibblesToBits(l) == Concat([i \in 1..Len(l) |-> NatToBits(l[i], 4)])

StripTrailingZeros(bits) ==
  IF \A i \in 1..Len(bits) : bits[i] = 0 THEN <<>>
  ELSE SubSeq(bits, 1, CHOOSE i \in 1..Len(bits) : bits[i] = 1 /\ \A j \in (i + 1)..Len(bits) : bits[j] = 0)

AsBits(bits) == [f |-> "bits", s |-> "", l |-> Force(BitsToBytes(bits)), n |-> Len(bits), ns |-> <<>>]
AsOcts(bits) == [f |-> "octs", s |-> "", l |-> Force(BitsToBytes(bits)), n |-> 0, ns |-> <<>>]

Same == [k |-> "same", d |-> NoDef, e |-> ""]
SetTo(d) == [k |-> "set", d |-> d, e |-> ""]
Raise(e) == [k |-> "raise", d |-> NoDef, e |-> e]

\* what the pass does to the default of `member` (a direct member of a SEQUENCE/SET of module mi)
DefOutcome(M, member, mi, ne, S) ==
  LET r == ResolveNode(M, member, mi)
      d == member.def
  IN CASE r.type = "BIT STRING" ->
            (CASE d.f = "bits" -> Same                                        \* "already pre-processed"
               [] d.f = "names" ->
                    IF \A i \in 1..Len(d.ns) : \E q \in 1..Len(r.nbits) : r.nbits[q].n = d.ns[i]
                    THEN LET pos == {r.nbits[SeqIndex(r.nbits, LAMBDA b : b.n = d.ns[i])].v : i \in 1..Len(d.ns)}
                             top == IF pos = {} THEN -1 ELSE CHOOSE x \in pos : \A y \in pos : y <= x
                         IN SetTo(AsBits([i \in 1..(top + 1) |-> IF (i - 1) \in pos THEN 1 ELSE 0]))
                    ELSE Raise("KeyError")
               [] d.f = "hex" -> SetTo(AsBits(StripTrailingZeros(NibblesToBits(d.l))))   \* as implemented: trailing zero bits dropped
               [] d.f = "bin" -> SetTo(AsBits(d.l))
               [] d.f = "name" -> Raise("ValueError")
               [] OTHER -> Raise("AttributeError"))
       [] r.type = "OCTET STRING" ->
            (CASE d.f = "octs" -> Same
               [] d.f = "bin" -> SetTo(AsOcts(d.l))
               [] d.f = "hex" -> SetTo(AsOcts(NibblesToBits(d.l)))
               [] d.f = "name" -> Same
               [] OTHER -> Raise("AttributeError"))
       [] r.type = "ENUMERATED" /\ ne ->
            LET mk == SeqIndex(r.vals, LAMBDA v : v.x)
                hit == IF d.f = "name" THEN SeqIndex(r.vals, LAMBDA v : ~v.x /\ v.n = d.s) ELSE 0
            IN IF hit > 0 /\ (mk = 0 \/ hit < mk)
               THEN (IF "DevEnumDefaultInPlace" \in S
                     THEN SetTo([f |-> "int", s |-> ToString(r.vals[hit].v), l |-> <<>>, n |-> 0, ns |-> <<>>])
                     ELSE Same)
               ELSE IF mk > 0 /\ "DevEnumMarkerUnpack" \in S THEN Raise("TypeError")
               ELSE IF hit > 0 /\ "DevEnumDefaultInPlace" \in S
               THEN SetTo([f |-> "int", s |-> ToString(r.vals[hit].v), l |-> <<>>, n |-> 0, ns |-> <<>>])
               ELSE Same
       [] OTHER -> Same

DefaultSites(m) ==
  LET ts == m.types
  IN Concat([ti \in 1..Len(ts) |->
       LET cps == ContainerPaths(ts[ti].node, <<>>)
       IN Concat([c \in 1..Len(cps) |->
            LET cn == NodeAt(ts[ti].node, cps[c])
            IN Concat([j \in 1..Len(cn.items) |->
                 IF cn.items[j].it = "M" /\ cn.items[j].ns[1].def.f # "none"
                 THEN << [ti |-> ti, p |-> Append(cps[c], <<j, 1>>)] >>
                 ELSE <<>>])])])

\* -> [m, err]: sites are processed in order; an exception leaves the earlier rewrites in place
PassDEF(M, mi, ne, S) ==
  LET step(acc, site) ==
        IF acc.err # "" THEN acc
        ELSE LET member == NodeAt(acc.m[mi].types[site.ti].node, site.p)
                 o == DefOutcome(acc.m, member, mi, ne, S)
             IN CASE o.k = "same" -> acc
                  [] o.k = "raise" -> [acc EXCEPT !.err = o.e]
                  [] OTHER -> [acc EXCEPT !.m = SetNode(acc.m, mi, site.ti,
                                  SetNodeAt(acc.m[mi].types[site.ti].node, site.p, [member EXCEPT !.def = o.d]))]
  IN FoldLeft(step, [m |-> M, err |-> ""], DefaultSites(M[mi]))

------------------------------------------------------------------------------
(* X.683 parameterization: step 1 instantiates every use of a parameterized *)
(* type (deep copy, dummy -> actual, dict.update), step 2 drops the         *)
(* parameterized types.  Type parameters only (value parameters in SIZE /   *)
(* ranges are outside the modelled universe).                               *)

\* python dict.update: every key present in a overrides
Upd(n, a) ==
  [name |-> IF a.name # "" THEN a.name ELSE n.name,
   type |-> a.type,
   tag |-> IF a.tag.has THEN a.tag ELSE n.tag,
   opt |-> a.opt \/ n.opt,
   def |-> IF a.def.f # "none" THEN a.def ELSE n.def,
   hasItems |-> a.hasItems \/ n.hasItems,
   items |-> IF a.hasItems THEN a.items ELSE n.items,
   elem |-> IF a.elem # <<>> THEN a.elem ELSE n.elem,
   vals |-> IF a.vals # <<>> THEN a.vals ELSE n.vals,
   nbits |-> IF a.nbits # <<>> THEN a.nbits ELSE n.nbits,
   hasParams |-> a.hasParams \/ n.hasParams,
   params |-> IF a.hasParams THEN a.params ELSE n.params,
   hasActuals |-> a.hasActuals \/ n.hasActuals,
   actuals |-> IF a.hasActuals THEN a.actuals ELSE n.actuals,
   modname |-> IF a.modname # "" THEN a.modname ELSE n.modname,
   rest |-> IF a.rest = "" THEN n.rest ELSE IF n.rest = "" THEN a.rest ELSE "merged"]

RECURSIVE DummyToActual(_, _, _)
DummyToActual(n, dummies, actuals) ==
  LET n1 == IF n.hasItems
            THEN [n EXCEPT !.items = Force([j \in 1..Len(n.items) |->
                    IF n.items[j].it = "M"
                    THEN [n.items[j] EXCEPT !.ns = <<DummyToActual(n.items[j].ns[1], dummies, actuals)>>]
                    ELSE n.items[j]])]
            ELSE IF n.elem # <<>> THEN [n EXCEPT !.elem = <<DummyToActual(n.elem[1], dummies, actuals)>>]
            ELSE n
      step(acc, q) ==
        LET a1 == IF acc.type = dummies[q] THEN Upd(acc, actuals[q]) ELSE acc
        IN IF a1.hasActuals
           THEN [a1 EXCEPT !.actuals = Force([i \in 1..Len(a1.actuals) |->
                   IF a1.actuals[i].type = dummies[q] THEN actuals[q] ELSE a1.actuals[i]])]
           ELSE a1
  IN FoldLeft(step, n1, Idx(Len(dummies)))

RECURSIVE Instantiate(_, _, _)
Instantiate(M, n, mi) ==
  LET n1 == IF n.hasItems
            THEN [n EXCEPT !.items = Force([j \in 1..Len(n.items) |->
                    IF n.items[j].it = "M"
                    THEN [n.items[j] EXCEPT !.ns = <<Instantiate(M, n.items[j].ns[1], mi)>>]
                    ELSE n.items[j]])]
            ELSE n
      n2 == IF n1.elem # <<>> THEN [n1 EXCEPT !.elem = <<Instantiate(M, n1.elem[1], mi)>>] ELSE n1
  IN IF ~n2.hasActuals THEN n2
     ELSE LET r == Lookup(M, n2.type, mi)
          IN IF ~r.ok THEN n2                                               \* CompileError: outside the universe
             ELSE LET P == M[r.mi].types[r.ti].node
                  IN IF ~P.hasParams \/ Len(P.params) # Len(n2.actuals) THEN n2
                     ELSE LET c == Instantiate(M, DummyToActual(P, P.params, n2.actuals), r.mi)
                              u == Upd(n2, c)
                              u2 == IF u.modname = "" /\ mi # r.mi THEN [u EXCEPT !.modname = M[r.mi].name] ELSE u
                          IN [u2 EXCEPT !.hasParams = FALSE, !.params = <<>>, !.hasActuals = FALSE, !.actuals = <<>>]

PassP1(M, mi) ==
  LET ts == M[mi].types
  IN SetTypes(M, mi, Force([t \in 1..Len(ts) |->
       IF ts[t].node.hasParams THEN ts[t] ELSE [ts[t] EXCEPT !.node = Instantiate(M, ts[t].node, mi)]]))

PassP2(M, mi) == SetTypes(M, mi, SelectSeq(M[mi].types, LAMBDA t : ~t.node.hasParams))

------------------------------------------------------------------------------
(* Compiler.pre_process and compile_dict                                    *)

\* -> [m, err]
PreProcess(M, ne, S) ==
  LET mods == Idx(Len(M))
      thenDef(acc, mi) == IF acc.err # "" THEN acc ELSE PassDEF(acc.m, mi, ne, S)
      four(acc, mi) == IF acc.err # "" THEN acc
                       ELSE PassDEF(PassTAGS(PassEI(PassCO(acc.m, mi), mi, S), mi, S), mi, ne, S)
      st4 == IF "DevModuleMajorPasses" \in S
             THEN FoldLeft(four, [m |-> M, err |-> ""], mods)
             ELSE LET a == FoldLeft(LAMBDA m, mi : PassCO(m, mi), M, mods)
                      b == FoldLeft(LAMBDA m, mi : PassEI(m, mi, S), a, mods)
                      c == FoldLeft(LAMBDA m, mi : PassTAGS(m, mi, S), b, mods)
                  IN FoldLeft(thenDef, [m |-> c, err |-> ""], mods)
  IN IF st4.err # "" THEN st4
     ELSE LET p1 == FoldLeft(LAMBDA m, mi : PassP1(m, mi), st4.m, mods)
              p2 == FoldLeft(LAMBDA m, mi : PassP2(m, mi), p1, mods)
          IN IF "DevDefaultsBeforeParameterization" \in S THEN [m |-> p2, err |-> ""]
             ELSE FoldLeft(thenDef, [m |-> p2, err |-> ""], mods)

\* compile_dict: the codec compiler, the type checker and the constraints checker
\* each pre-process the one shared dictionary, in this order.
\* -> [m: dictionary afterwards, err, v: the three dictionaries the three compilers read]
Compile(M, ne, S) ==
  LET r1 == PreProcess(M, ne, S)
  IN IF r1.err # "" THEN [m |-> r1.m, err |-> r1.err, v |-> <<>>]
     ELSE LET r2 == PreProcess(r1.m, ne, S)
          IN IF r2.err # "" THEN [m |-> r2.m, err |-> r2.err, v |-> <<>>]
             ELSE LET r3 == PreProcess(r2.m, ne, S)
                  IN IF r3.err # "" THEN [m |-> r3.m, err |-> r3.err, v |-> <<>>]
                     ELSE [m |-> r3.m, err |-> "", v |-> <<r1.m, r2.m, r3.m>>]

\* one compile_dict call as the caller sees it: -> [m: the caller's dictionary afterwards, err, v]
CompileDict(M, ne, S) ==
  LET c == Compile(M, ne, S)
  IN [m |-> IF "DevCompileInPlace" \in S THEN c.m ELSE M, err |-> c.err, v |-> c.v]

\* the parse sub-command writes pformat(dict); the .py loader evaluates it:
\* lists, tuples, bytes, None survive; dict keys come back sorted
Rank(order, name) == SeqIndex(order, LAMBDA x : x = name)
SortBy(s, key(_), order) ==
  InsSort(s, LAMBDA a, b : IF Rank(order, key(a)) < Rank(order, key(b)) THEN -1
                           ELSE IF Rank(order, key(a)) > Rank(order, key(b)) THEN 1 ELSE 0)

PformatEval(M, order, S) ==
  IF "DevPformatSortsDicts" \notin S THEN M
  ELSE LET sm == SortBy(M, LAMBDA m : m.name, order)
       IN Force([i \in 1..Len(sm) |->
            [sm[i] EXCEPT !.types = SortBy(sm[i].types, LAMBDA t : t.name, order),
                          !.imports = SortBy(sm[i].imports, LAMBDA im : im.from, order)]])

\* copy.deepcopy: the abstraction has no sharing
DeepCopy(M) == M

------------------------------------------------------------------------------
(* what a compiled object can depend on: the dictionary read by name        *)

Canon(M) ==
  [i \in 1..Len(M) |->
     [name |-> M[i].name, tags |-> M[i].tags, extimp |-> M[i].extimp,
      imports |-> {M[i].imports[q] : q \in 1..Len(M[i].imports)},
      types |-> {M[i].types[j] : j \in 1..Len(M[i].types)}]]

CanonSet(M) == {Canon(M)[i] : i \in 1..Len(M)}

\* [err, v]: equal views <=> the three compilers read equal dictionaries (or raise alike)
View(c) == [err |-> c.err, v |-> [k \in 1..Len(c.v) |-> CanonSet(c.v[k])]]

\* types (as <<module index, type index>>) a type's compiled form can depend on
RECURSIVE RefsOfNode(_, _, _)
RefsOfNode(M, n, mi) ==
  LET home == IF n.modname # "" /\ ModIdx(M, n.modname) > 0 THEN ModIdx(M, n.modname) ELSE mi
      r == Lookup(M, n.type, home)
  IN (IF r.ok THEN {<<r.mi, r.ti>>} ELSE {})
     \cup UNION {UNION {RefsOfNode(M, n.items[j].ns[k], home) : k \in 1..Len(n.items[j].ns)} : j \in 1..Len(n.items)}
     \cup (IF n.elem # <<>> THEN RefsOfNode(M, n.elem[1], home) ELSE {})

RECURSIVE ClosureFix(_, _)
ClosureFix(M, acc) ==
  LET more == acc \cup UNION {RefsOfNode(M, M[p[1]].types[p[2]].node, p[1]) : p \in acc}
  IN IF more = acc THEN acc ELSE ClosureFix(M, more)

\* <<module, type>> names of the top-level types on which two dictionaries differ
DiffNames(A, B) ==
  LET tab(M) == UNION {{<<M[i].name, M[i].tags, M[i].types[j]>> : j \in 1..Len(M[i].types)} : i \in 1..Len(M)}
      ta == tab(A)
      tb == tab(B)
  IN {<<x[1], x[3].name>> : x \in (ta \ tb) \cup (tb \ ta)}

\* <<module, type>> names of everything a type called tn (in any module) reaches
ClosureNames(M, tn) ==
  UNION {IF TypeIdx(M[i], tn) = 0 THEN {}
         ELSE {<<M[p[1]].name, M[p[1]].types[p[2]].name>> : p \in ClosureFix(M, {<<i, TypeIdx(M[i], tn)>>})}
         : i \in 1..Len(M)}

\* per compiler (codec, type checker, constraints checker) the differing type names
DiffNamesAll(c1, c2) == Force([k \in 1..3 |-> DiffNames(c1.v[k], c2.v[k])])

TypeDiffersGiven(c1, c2, dns, tn) ==
  \E k \in 1..3 : dns[k] # {} /\ (ClosureNames(c1.v[k], tn) \cap dns[k] # {} \/ ClosureNames(c2.v[k], tn) \cap dns[k] # {})

\* does the compiled form of a type named tn differ between two compile results ?
TypeDiffers(c1, c2, tn) ==
  \/ c1.err # c2.err
  \/ c1.err = "" /\ TypeDiffersGiven(c1, c2, DiffNamesAll(c1, c2), tn)

=============================================================================
