------------------------------ MODULE Stateless ------------------------------
(***************************************************************************)
(* C18 -- a compiled specification is stateless across calls and threads.  *)
(*                                                                         *)
(* Part 1, the REQUIREMENT as a transition system.  After Compile the      *)
(* only things that happen are Invoke(t, op) and Return(t, op, r) of       *)
(* threads t on operations op of a finite table, and the caller doing what *)
(* it likes with objects it was handed (Mutate).  The requirement is       *)
(*    r = Solo[op]          Solo[op]: what the same call returns alone on  *)
(*                          a freshly compiled specification (measured by  *)
(*                          the harness; computed by RunAlone in the model)*)
(*    gGraph' = gGraph      no action after Compile writes the compiled    *)
(*                          type graph                                     *)
(*    gArg'[t] = gArg[t]    argument objects are unchanged between Invoke  *)
(*                          and Return                                     *)
(* The pure operators CanInvoke/DoInvoke/CanReturn/RetIsSolo/DoReturn that *)
(* make up the actions are also what Trace_Stateless folds over recorded   *)
(* executions of the real library.                                         *)
(*                                                                         *)
(* Part 2, a MECHANISM model: how an implementation computes a call in     *)
(* interruptible micro-steps on objects, selected by the constant Mech:    *)
(*    "PerCall"                 buffer / values dict / default copies are  *)
(*                              created per call (what asn1tools does for  *)
(*                              encoders: per.Encoder(), bytearray())      *)
(*    "MUT_SharedEncoder"       one scratch buffer per compiled type,      *)
(*                              reset at the start of every call: fine     *)
(*                              sequentially, racy across threads          *)
(*    "MUT_ResetAtEnd"          shared buffer cleaned after success only:  *)
(*                              a failing call leaks into the next call on *)
(*                              ANOTHER type sharing the sub-type (N = 1)  *)
(*    "MUT_SharedDefaultObject" decode hands out the stored DEFAULT object *)
(*                              itself; the caller's Mutate writes the     *)
(*                              graph and changes later decodes            *)
(*    "MUT_LazyInitRace"        a type attribute (recursive type link) is  *)
(*                              initialised at first use in two writes     *)
(*    "MUT_MutatesArgument"     encode normalises its input in place       *)
(* TLC verifies  MSpec => ReqSpec  (refinement: every micro-step stutters  *)
(* on the requirement's variables, every completed call is a Return with   *)
(* Solo) for "PerCall" exhaustively over all interleavings, and must find  *)
(* counterexamples for every MUT_ variant.  The first violating step of    *)
(* each counterexample names the object written -- these are the objects   *)
(* the harness puts tripwires on (drive_stateless.py):                     *)
(*    enc.<type>  -> every instance reachable from the compiled graph gets *)
(*                   a recording __setattr__, its lists/dicts recording    *)
(*                   mutators  (graph_write event; schedule independent)   *)
(*    def.<member>-> identity of mutable objects in two decode results and *)
(*                   in the graph, mutate-and-redecode (default_aliased)   *)
(*    lazy.<type> -> same __setattr__ tripwire + structural fingerprint of *)
(*                   the graph before/after the run (graph_changed)        *)
(*    arg.<t>     -> canonical form of the argument before/after the call  *)
(*                   (arg_mutated)                                         *)
(*                                                                         *)
(* Part 3, Mech = "Table": the requirement-level system over the operation *)
(* tables measured on the real library (OPS_FILE); TLC -simulate walks it  *)
(* and every completed behaviour is emitted as a schedule (thread count,   *)
(* switch-interval seed, sequence of Invoke(t, op)) that the harness       *)
(* replays sequentially and on real threads.                               *)
(***************************************************************************)
EXTENDS Integers, Sequences, SequencesExt, FiniteSets, TLC, Json, IOUtils, Randomization

CONSTANTS Threads,     \* set of thread identities (model values or 1..N)
          MaxCalls,    \* calls per thread (mechanism model) / per schedule (Table)
          Mech         \* see above

VARIABLES gThr, gGraph, gArg,     \* requirement level
          gCall, gLocal,          \* mechanism: running call and private objects of each thread
          gPlan, gSched           \* schedule generation (constant unless Mech = "Table")

reqvars == <<gThr, gGraph, gArg>>
vars == <<gThr, gGraph, gArg, gCall, gLocal, gPlan, gSched>>

IsTable == Mech = "Table"
ForceSeq(f) == f \o <<>>          \* TLC: evaluate a function constructor over 1..n once
Perms == Permutations(Threads)    \* SYMMETRY for the model-checking configurations

------------------------------------------------------------------------------
(* Part 1: the requirement, as pure operators on the per-thread control     *)
(* state th : thread -> [pc, op, n, ret]                                    *)

ThreadInit(noret) == [pc |-> "idle", op |-> 0, n |-> 0, ret |-> noret]

CanInvoke(th, t) == th[t].pc = "idle"
DoInvoke(th, t, op, noret) ==
  [th EXCEPT ![t] = [pc |-> "pending", op |-> op, n |-> @.n + 1, ret |-> noret]]

CanReturn(th, t, op) == th[t].pc = "pending" /\ th[t].op = op
RetIsSolo(solo, op, r) == r = solo[op]
DoReturn(th, t, r) == [th EXCEPT ![t].pc = "idle", ![t].ret = r]

------------------------------------------------------------------------------
(* Part 2: the mechanism model                                              *)

Ins(i) == [i |-> i, x |-> ""]
InsX(i, x) == [i |-> i, x |-> x]

\* A and B both refer to the sub-type S (one shared compiled object); R is recursive.
\* Encode and decode are both "write pieces into a buffer, return the buffer".
MOps == <<
  [kind |-> "encode", ty |-> "A", arg |-> <<"x", "dflt">>,       \* valid value
   prog |-> <<Ins("Norm"), Ins("Begin"), InsX("Put", "a"), InsX("Put", "s"), Ins("End")>>],
  [kind |-> "encode", ty |-> "B", arg |-> <<"y">>,               \* valid value, other type, same sub-type
   prog |-> <<Ins("Norm"), Ins("Begin"), InsX("Put", "b"), InsX("Put", "s"), Ins("End")>>],
  [kind |-> "encode", ty |-> "A", arg |-> <<"bad">>,             \* invalid value: fails in mid-encode
   prog |-> <<Ins("Norm"), Ins("Begin"), InsX("Put", "a"), InsX("Fail", "EncodeError")>>],
  [kind |-> "decode", ty |-> "A", arg |-> <<"30", "00">>,        \* DEFAULT member absent
   prog |-> <<Ins("Begin"), InsX("Put", "s"), Ins("TakeDefault"), Ins("End")>>],
  [kind |-> "decode", ty |-> "B", arg |-> <<"30">>,              \* truncated
   prog |-> <<Ins("Begin"), InsX("Fail", "DecodeError")>>],
  [kind |-> "decode", ty |-> "R", arg |-> <<"a0", "01">>,        \* recursive type
   prog |-> <<Ins("Begin"), Ins("Resolve"), InsX("Put", "leaf"), Ins("End")>> ] >>

ScratchKey(ty) == IF ty = "R" THEN "R" ELSE "S"

G(id) == [sp |-> "g", id |-> id]       \* object of the compiled type graph
L(id) == [sp |-> "l", id |-> id]       \* private object of the running thread
NoRef == [sp |-> "n", id |-> ""]

GraphIds == {"spec", "enc.S", "enc.R", "def.A.d", "lazy.R"}
Uncompiled == [o \in GraphIds |-> <<"uncompiled">>]
CompiledGraph ==
  [o \in GraphIds |->
     IF o = "spec" THEN <<"compiled">>
     ELSE IF o = "lazy.R" THEN (IF Mech = "MUT_LazyInitRace" THEN <<"unset">> ELSE <<"ready">>)
     ELSE <<>>]
IsCompiled(g) == g["spec"] = <<"compiled">>

LocalInit == [buf |-> <<>>, res |-> <<>>]

MNoRet == [ok |-> FALSE, v |-> <<"none">>]
NoOut == [done |-> FALSE, r |-> MNoRet]
NoCall == [op |-> 0, ip |-> 1, dref |-> NoRef, mine |-> FALSE, out |-> NoOut]
NewCall(op) == [NoCall EXCEPT !.op = op]

BufRef(op) ==
  IF Mech \in {"MUT_SharedEncoder", "MUT_ResetAtEnd"} THEN G("enc." \o ScratchKey(MOps[op].ty)) ELSE L("buf")

\* st = [g: graph, l: private objects of thread t, a: argument object of t, c: call of t]
Rd(st, ref) == IF ref.sp = "g" THEN st.g[ref.id] ELSE st.l[ref.id]
Wr(st, ref, val) == IF ref.sp = "g" THEN [st EXCEPT !.g[ref.id] = val] ELSE [st EXCEPT !.l[ref.id] = val]

Advance(st) == [st EXCEPT !.c.ip = @ + 1]
Finish(st, ok, v) ==
  LET buf == BufRef(st.c.op)
      st1 == IF buf.sp = "l" THEN Wr(st, buf, <<>>) ELSE st      \* the per-call object is garbage
  IN [st1 EXCEPT !.c.out = [done |-> TRUE, r |-> [ok |-> ok, v |-> v]]]

\* one interruptible micro-step of the call of one thread
Exec(st) ==
  LET c == st.c
      ins == MOps[c.op].prog[c.ip]
      buf == BufRef(c.op)
  IN CASE ins.i = "Norm" ->
            IF Mech = "MUT_MutatesArgument" THEN Advance([st EXCEPT !.a = Tail(@)]) ELSE Advance(st)
       [] ins.i = "Begin" ->
            IF Mech = "MUT_ResetAtEnd" THEN Advance(st) ELSE Advance(Wr(st, buf, <<>>))
       [] ins.i = "Put" -> Advance(Wr(st, buf, Append(Rd(st, buf), ins.x)))
       [] ins.i = "Fail" -> Finish(st, FALSE, <<ins.x>>)
       [] ins.i = "TakeDefault" ->
            IF Mech = "MUT_SharedDefaultObject"
            THEN Advance([st EXCEPT !.c.dref = G("def.A.d")])
            ELSE Advance([Wr(st, L("res"), Rd(st, G("def.A.d"))) EXCEPT !.c.dref = L("res")])
       [] ins.i = "Resolve" ->
            LET z == st.g["lazy.R"] IN
            IF z = <<"ready">> THEN Advance(st)
            ELSE IF z = <<"unset">> THEN [Wr(st, G("lazy.R"), <<"partial">>) EXCEPT !.c.mine = TRUE]
            ELSE IF c.mine THEN Advance(Wr(st, G("lazy.R"), <<"ready">>))
            ELSE Finish(st, FALSE, <<"AttributeError">>)        \* somebody else's half-initialised object
       [] ins.i = "End" ->
            LET v == Rd(st, buf) \o (IF c.dref = NoRef THEN <<>> ELSE <<"|">> \o Rd(st, c.dref))
                st1 == IF Mech = "MUT_ResetAtEnd" THEN Wr(st, buf, <<>>) ELSE st
            IN Finish(st1, TRUE, v)

\* the oracle: the call made alone on a freshly compiled specification
RunAlone(op) ==
  LET st0 == [g |-> CompiledGraph, l |-> LocalInit, a |-> MOps[op].arg, c |-> NewCall(op)]
      step(st, k) == IF st.c.out.done THEN st ELSE Exec(st)
  IN FoldLeft(step, st0, <<1, 2, 3, 4, 5, 6, 7, 8>>).c.out

MSolo == ForceSeq([op \in 1..Len(MOps) |-> RunAlone(op).r])
ASSUME MSoloTerminates == IsTable \/ \A op \in 1..Len(MOps) : RunAlone(op).done

------------------------------------------------------------------------------
(* Part 3: operation tables of the real library (Mech = "Table")            *)

Tables == IF IsTable THEN JsonDeserialize(IOEnv.OPS_FILE).tables ELSE <<>>
PlanLens == IF IsTable THEN JsonDeserialize(IOEnv.OPS_FILE).lens ELSE <<>>
Branch == 3                    \* operations offered per thread and step of the simulation
NoPlan == [tab |-> 0, n |-> 0, len |-> 0, sw |-> 0, done |-> FALSE]

------------------------------------------------------------------------------
(* mode-dependent names                                                     *)

NoRet == IF IsTable THEN "none" ELSE MNoRet
NOps == IF IsTable THEN Tables[gPlan.tab].nops ELSE Len(MOps)
OpIds == 1..NOps
Solo(op) == IF IsTable THEN "Solo[" \o ToString(op) \o "]" ELSE MSolo[op]   \* Table: by reference, the harness measured it
ArgOf(op) == IF IsTable THEN <<>> ELSE MOps[op].arg
Active == IF IsTable THEN {t \in Threads : t <= gPlan.n} ELSE Threads
Budget(t) == IF IsTable THEN Len(gSched) < gPlan.len ELSE gThr[t].n < MaxCalls

------------------------------------------------------------------------------
(* the requirement-level transition system                                  *)

ReqInit == /\ gThr = [t \in Threads |-> ThreadInit(NoRet)]
           /\ gGraph = Uncompiled
           /\ gArg = [t \in Threads |-> <<>>]

ReqCompile == /\ ~IsCompiled(gGraph)
              /\ gGraph' = CompiledGraph
              /\ UNCHANGED <<gThr, gArg>>

Invoke(t, op) == /\ IsCompiled(gGraph)
                 /\ CanInvoke(gThr, t)
                 /\ gThr' = DoInvoke(gThr, t, op, NoRet)
                 /\ gArg' = [gArg EXCEPT ![t] = ArgOf(op)]     \* the caller builds the argument
                 /\ gGraph' = gGraph

Return(t, op, r) == /\ CanReturn(gThr, t, op)
                    /\ r = Solo(op)                             \* the property
                    /\ gThr' = DoReturn(gThr, t, r)
                    /\ gGraph' = gGraph                         \* nothing written after Compile
                    /\ gArg' = gArg                             \* arguments unchanged

ReqNext == \/ ReqCompile
           \/ \E t \in Threads : \E op \in OpIds : Invoke(t, op) \/ Return(t, op, Solo(op))

ReqSpec == ReqInit /\ [][ReqNext]_reqvars

------------------------------------------------------------------------------
(* the mechanism's transition system                                        *)

Init == /\ ReqInit
        /\ gCall = [t \in Threads |-> NoCall]
        /\ gLocal = [t \in Threads |-> LocalInit]
        /\ gSched = <<>>
        /\ gPlan \in (IF IsTable
                      THEN {[tab |-> k, n |-> n, len |-> PlanLens[j], sw |-> s, done |-> FALSE] :
                              k \in 1..Len(Tables), n \in Threads, j \in 1..Len(PlanLens), s \in 1..4}
                      ELSE {NoPlan})

MCompile == ReqCompile /\ UNCHANGED <<gCall, gLocal, gPlan, gSched>>

OpChoice == IF IsTable THEN RandomSubset(Branch, OpIds) ELSE OpIds

MInvoke(t, op) ==
  /\ Budget(t)
  /\ Invoke(t, op)
  /\ gCall' = [gCall EXCEPT ![t] = IF IsTable THEN [NewCall(op) EXCEPT !.out = [done |-> TRUE, r |-> Solo(op)]]
                                                ELSE NewCall(op)]
  /\ gSched' = IF IsTable THEN Append(gSched, [t |-> t, op |-> op]) ELSE gSched
  /\ UNCHANGED <<gLocal, gPlan>>

MStep(t) ==
  /\ gThr[t].pc = "pending"
  /\ ~gCall[t].out.done
  /\ LET st == Exec([g |-> gGraph, l |-> gLocal[t], a |-> gArg[t], c |-> gCall[t]])
     IN /\ gGraph' = st.g
        /\ gLocal' = [gLocal EXCEPT ![t] = st.l]
        /\ gArg' = [gArg EXCEPT ![t] = st.a]
        /\ gCall' = [gCall EXCEPT ![t] = st.c]
  /\ UNCHANGED <<gThr, gPlan, gSched>>

MReturn(t) ==
  /\ gThr[t].pc = "pending"
  /\ gCall[t].out.done
  /\ gThr' = DoReturn(gThr, t, gCall[t].out.r)          \* whatever the mechanism computed
  /\ UNCHANGED <<gGraph, gArg, gCall, gLocal, gPlan, gSched>>

\* the caller owns what it was handed and may change it (once is enough)
MMutate(t) ==
  /\ ~IsTable
  /\ gThr[t].pc = "idle"
  /\ gCall[t].dref # NoRef
  /\ LET ref == gCall[t].dref
         st == [g |-> gGraph, l |-> gLocal[t], a |-> gArg[t], c |-> gCall[t]]
     IN /\ "X" \notin {Rd(st, ref)[k] : k \in 1..Len(Rd(st, ref))}
        /\ LET st2 == Wr(st, ref, Append(Rd(st, ref), "X"))
           IN gGraph' = st2.g /\ gLocal' = [gLocal EXCEPT ![t] = st2.l]
  /\ UNCHANGED <<gThr, gArg, gCall, gPlan, gSched>>

GenFinish ==
  /\ IsTable /\ ~gPlan.done
  /\ Len(gSched) = gPlan.len
  /\ \A t \in Threads : gThr[t].pc = "idle"
  /\ gPlan' = [gPlan EXCEPT !.done = TRUE]
  /\ UNCHANGED <<gThr, gGraph, gArg, gCall, gLocal, gSched>>

Next == \/ MCompile
        \/ \E t \in Active : \/ \E op \in OpChoice : MInvoke(t, op)
                             \/ MStep(t) \/ MReturn(t) \/ MMutate(t)
        \/ GenFinish

Spec == Init /\ [][Next]_vars

------------------------------------------------------------------------------
(* what TLC checks on the mechanism (besides PROPERTY ReqSpec)              *)

\* every completed call returned what the call returns alone
ReturnsSolo == \A t \in Threads : (gThr[t].pc = "idle" /\ gThr[t].n > 0) => gThr[t].ret = Solo(gThr[t].op)

\* the compiled type graph is read-only after Compile (the fingerprint the harness takes)
GraphUnchanged == IsCompiled(gGraph) => gGraph = CompiledGraph

\* ... and is not even written transiently (the __setattr__ tripwire): action property
NoGraphWrite == [][IsCompiled(gGraph) => gGraph' = gGraph]_vars

\* the argument object of a running call keeps its content
ArgsUnchanged == \A t \in Threads : gThr[t].pc = "pending" => gArg[t] = ArgOf(gThr[t].op)

\* no object handed to a caller is an object of the graph
NoAliasOfGraph == \A t \in Threads : gCall[t].dref.sp # "g"

------------------------------------------------------------------------------
(* schedule emission (Mech = "Table"); one JSON line per completed behaviour *)

Schedule == [tid |-> Tables[gPlan.tab].tid, n |-> gPlan.n, sw |-> gPlan.sw, steps |-> gSched]

Emit ==
  (IsTable /\ gPlan.done) =>
    Serialize(ToJson(Schedule) \o "\n", IOEnv.OUT_FILE,
              [format |-> "TXT", charset |-> "UTF-8", openOptions |-> <<"WRITE", "CREATE", "APPEND">>]).exitValue = 0

=============================================================================
