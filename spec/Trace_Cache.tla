----------------------------- MODULE Trace_Cache ----------------------------
(***************************************************************************)
(* Binding B for C17.  One recorded line = one history replayed on a real  *)
(* cache directory by harness/drive_cache.py: the events call / kill /     *)
(* corrupt with, for every call, the abstract arguments, the chunk         *)
(* sequences of the files at that moment, the outcome of the cached call,  *)
(* the outcome of an uncached compile of the same files and options, and   *)
(* the diskcache wrapper events (get hit/miss/err, set begun/ok/err with   *)
(* the hash of the key the code passed).                                   *)
(*                                                                         *)
(* Each call is judged twice with the operators of Cache.tla:              *)
(*   RET   the requirement: the cached outcome equals the uncached one, or *)
(*         the call raised after the directory was damaged.  A wrong       *)
(*         specification is a named deviation only if it is exactly the    *)
(*         entry that an earlier call stored under a key that the key      *)
(*         mechanism of compiler.py (KeyOf(CodeDevs, ..)) does not tell    *)
(*         apart -- Diff names what the key omits -- or a hit after        *)
(*         damage (DevCacheEntryNotVerified).  Everything else: reject.    *)
(*   MECH  the wrapper events are a behaviour of the mechanism model: a    *)
(*         hit needs an earlier (completed or interrupted) set of that     *)
(*         key, a miss needs its absence (or damage), a set follows a      *)
(*         miss of the same key, and the equalities between the key hashes *)
(*         of this history are those of KeyOf(S, ..) for the smallest set  *)
(*         S of key deviations (S = {}: the key the property needs).       *)
(* A rejected line never stops the run; one report per line.               *)
(***************************************************************************)
EXTENDS Cache, TLCExt, SequencesExt

Tr == ndJsonDeserialize(IOEnv.TRACE_FILE)

VARIABLE i

Has(r, f) == f \in DOMAIN r

KeyDevs == {"DevCacheKeyOmitsNumericEnums", "DevCacheKeyOmitsAnyDefinedByChoices", "DevCacheKeyConcatAmbiguity"}
\* candidate key mechanisms, smallest first
KeyDevSubsets ==
  << {}, {"DevCacheKeyOmitsNumericEnums"}, {"DevCacheKeyOmitsAnyDefinedByChoices"}, {"DevCacheKeyConcatAmbiguity"},
     {"DevCacheKeyOmitsNumericEnums", "DevCacheKeyOmitsAnyDefinedByChoices"},
     {"DevCacheKeyOmitsNumericEnums", "DevCacheKeyConcatAmbiguity"},
     {"DevCacheKeyOmitsAnyDefinedByChoices", "DevCacheKeyConcatAmbiguity"}, KeyDevs >>

V(check, verdict, detail) == [check |-> check, verdict |-> verdict, detail |-> detail]

CallOf(e) == [fl |-> e.fl, codec |-> e.codec, ne |-> e.ne, adbc |-> e.adbc]
Gets(e) == SelectSeq(e.wr, LAMBDA w : w.op = "get")
Sets(e) == SelectSeq(e.wr, LAMBDA w : w.op = "set")

NoEnt == [kh |-> "-", st |-> "absent", c |-> NoCall, ts |-> <<>>, map |-> "-"]
EntryOf(S, kh) == LET m == SelectSeq(S.store, LAMBDA x : x.kh = kh)
                  IN IF m = <<>> THEN NoEnt ELSE m[Len(m)]

OutEq(a, b) == /\ a.st = b.st
               /\ a.st = "ok" => a.map = b.map
               /\ a.st = "exc" => a.cls = b.cls

ExcKey(o) == IF o.st = "exc" THEN o.cls \o "@" \o o.site ELSE o.st

------------------------------------------------------------------------------
RetVerdict(S, e) ==
  LET co == e.cached
      fo == e.fresh
      c == CallOf(e)
      gets == Gets(e)
      hit == gets # <<>> /\ gets[1].r = "hit"
      ent == IF gets # <<>> THEN EntryOf(S, gets[1].kh) ELSE NoEnt
      stale == hit /\ ent.st # "absent" /\ co.st = "ok" /\ ent.map = co.map
      D == IF stale THEN Diff(Fresh(ent.c, ent.ts), Fresh(c, e.texts)) ELSE {}
      sameCodeKey == stale /\ KeyOf(CodeDevs, ent.c, ent.ts) = KeyOf(CodeDevs, c, e.texts)
  IN IF co.st = "timeout"
     THEN (IF S.dmg THEN V("RET", "ok", "")      \* no specification was returned: not a wrong codec (counted by the harness)
           ELSE V("RET", "reject", "the cached call does not return although nothing was damaged"))
     ELSE IF co.st = "died" THEN V("RET", "reject", "the cached call died")
     ELSE IF fo.st \notin {"ok", "exc"} THEN V("RET", "machinery", "uncached compile: " \o fo.st)
     ELSE IF OutEq(co, fo) THEN V("RET", "ok", "")
     ELSE IF co.st = "exc"
     THEN (IF S.dmg THEN V("RET", "ok", "")       \* a damaged cache may cause an error
           ELSE V("RET", "reject", "raises " \o ExcKey(co) \o " although nothing was damaged; uncached: " \o ExcKey(fo)))
     ELSE IF stale /\ D # {} /\ D \subseteq KeyDevs /\ sameCodeKey THEN V("RET", "dev", ToString(D))
     ELSE IF stale /\ D # {} THEN V("RET", "reject", "wrong codec: returned the entry of another call, differing in " \o ToString(D))
     ELSE IF hit /\ S.dmg THEN V("RET", "dev", ToString({"DevCacheEntryNotVerified"}))
     ELSE V("RET", "reject", "wrong codec: " \o (IF hit THEN "a hit" ELSE "a call without hit")
                             \o " returned a specification that is neither the uncached one nor a stored one"
                             \o (IF fo.st = "exc" THEN "; uncached raises " \o ExcKey(fo) ELSE ""))

KeyMech(S, kh, c, ts) ==
  LET fits == SelectSeq(KeyDevSubsets,
                        LAMBDA D : \A j \in 1..Len(S.calls) :
                                     (S.calls[j].kh = kh) <=> (KeyOf(D, S.calls[j].c, S.calls[j].ts) = KeyOf(D, c, ts)))
  IN IF fits = <<>> THEN "none" ELSE ToString(fits[1])

MechVerdict(S, e) ==
  LET gets == Gets(e)
      sets == Sets(e)
      c == CallOf(e)
  IN IF gets = <<>>
     THEN (IF sets = <<>> /\ e.last \in {"-", "begin", "open_begin", "open_end", "get_begin"}
           THEN V("MECH", "ok", "")    \* ended (killed / raised) before the lookup finished
           ELSE IF sets = <<>> THEN V("MECH", "skip", "no diskcache wrapper events recorded")
           ELSE V("MECH", "reject", "set without a lookup"))
     ELSE LET g == gets[1]
              ent == EntryOf(S, g.kh)
              km == KeyMech(S, g.kh, c, e.texts)
          IN IF g.r = "hit" /\ ent.st = "absent" /\ ~S.dmg
             THEN V("MECH", "reject", "hit without an earlier set of this key")
             ELSE IF g.r = "miss" /\ ent.st = "complete" /\ ~S.dmg
             THEN V("MECH", "reject", "miss although this key was stored and nothing was damaged")
             ELSE IF g.r = "err" /\ ~S.dmg
             THEN V("MECH", "reject", "cache lookup raised although nothing was damaged")
             ELSE IF sets # <<>> /\ (g.r # "miss" \/ sets[1].kh # g.kh)
             THEN V("MECH", "reject", "set not after a miss of the same key")
             ELSE IF km = "none"
             THEN V("MECH", "reject", "key equalities of this history fit no listed key mechanism")
             ELSE IF km = ToString({}) THEN V("MECH", "ok", "")
             ELSE V("MECH", "dev", km)

After(S, e) ==
  LET gets == Gets(e)
      sets == Sets(e)
      c == CallOf(e)
      m == IF e.cached.st = "ok" THEN e.cached.map ELSE IF e.fresh.st = "ok" THEN e.fresh.map ELSE "-"
      st2 == IF sets # <<>> /\ sets[1].r \in {"ok", "begun"}
             THEN Append(S.store, [kh |-> sets[1].kh, st |-> IF sets[1].r = "ok" THEN "complete" ELSE "inflight",
                                   c |-> c, ts |-> e.texts, map |-> m])
             ELSE S.store
      cs2 == IF gets # <<>> THEN Append(S.calls, [kh |-> gets[1].kh, c |-> c, ts |-> e.texts]) ELSE S.calls
  IN [S EXCEPT !.store = st2, !.calls = cs2]

Tag(e, n, v) == [vi |-> n, codec |-> e.codec, ne |-> e.ne, check |-> v.check, verdict |-> v.verdict, detail |-> v.detail]

StepEv(S, e) ==
  LET n == S.n + 1 IN
  IF e.t = "corrupt" THEN [S EXCEPT !.n = n, !.dmg = S.dmg \/ e.changed]
  ELSE LET judged == e.t = "call" \/ ~e.died
           r == IF judged THEN <<Tag(e, n, RetVerdict(S, e))>> ELSE <<>>
           mv == <<Tag(e, n, MechVerdict(S, e))>>
           pw == judged /\ e.exp = "wrong"
           cf == pw /\ r[1].verdict = "dev" /\ r[1].detail = ToString({x \in AllDevs \cup {"-"} : \E k \in 1..Len(e.why) : e.why[k] = x})
       IN [After(S, e) EXCEPT !.n = n, !.out = S.out \o r \o mv,
                              !.pw = S.pw + (IF pw THEN 1 ELSE 0), !.cf = S.cf + (IF cf THEN 1 ELSE 0)]

S0 == [store |-> <<>>, calls |-> <<>>, dmg |-> FALSE, n |-> 0, out |-> <<>>, pw |-> 0, cf |-> 0]

LineReport(L) ==
  IF Has(L, "machinery")
  THEN [cid |-> L.cid, n |-> 1, ok |-> 0, pw |-> 0, cf |-> 0,
        other |-> <<[vi |-> 0, codec |-> "-", ne |-> "-", check |-> "ANY", verdict |-> "machinery", detail |-> L.machinery]>>]
  ELSE LET S == FoldLeft(StepEv, S0, L.ev)
       IN [cid |-> L.cid, n |-> Len(S.out),
           ok |-> Len(SelectSeq(S.out, LAMBDA r : r.verdict = "ok")),
           pw |-> S.pw, cf |-> S.cf,
           other |-> SelectSeq(S.out, LAMBDA r : r.verdict # "ok")]

Report(r) ==
  Serialize(ToJson(r) \o "\n", IOEnv.VERDICT_FILE,
            [format |-> "TXT", charset |-> "UTF-8", openOptions |-> <<"WRITE", "CREATE", "APPEND">>]).exitValue = 0

TInit == Init /\ i = 1
TNext == /\ i <= Len(Tr)
         /\ Report(LineReport(Tr[i]))
         /\ i' = i + 1
         /\ UNCHANGED vars
TSpec == TInit /\ [][TNext]_<<vars, i>>

TraceAccepted == TLCGet("stats").diameter - 1 = Len(Tr)

=============================================================================
