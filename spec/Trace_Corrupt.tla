---------------------------- MODULE Trace_Corrupt ----------------------------
(***************************************************************************)
(* Binding B for C12.  One recorded line per case: a type, well-formed     *)
(* values, the patch instructions (corruptions) and, per corruption and    *)
(* (codec, numeric_enums) group, what encode(check_types=True,             *)
(* check_constraints=True) of the real library did.                        *)
(*                                                                         *)
(*   COR   the corruption must be one the property quantifies over         *)
(*         (Corrupt!Applicable, recomputed here); the outcome must be an   *)
(*         exception whose class has asn1tools.errors.EncodeError or       *)
(*         asn1tools.errors.ConstraintsError in its MRO -- never bytes,    *)
(*         never a foreign exception -- and the recorded message prefix    *)
(*         (text before the first ": ") must equal                         *)
(*         JoinDot(<<type name>> \o Expected(..).path)                     *)
(*   GOOD  the uncorrupted value is not rejected by the type check (no     *)
(*         exception raised inside codecs.type_checker)                    *)
(*                                                                         *)
(* A path that is reproduced exactly by the named deviation                *)
(* DevPathRecursiveTypeName, and bytes returned where the named deviation  *)
(* DevAdditionErrorsSwallowed applies, get verdict "dev".  A foreign       *)
(* exception is rejected with the key <KindName>:enc-exc:<Class>@<site>,   *)
(* unless the uncorrupted value already fails in exactly the same way in   *)
(* that codec (skip: the defect belongs to another property).              *)
(***************************************************************************)
EXTENDS CorruptRules, TLCExt, Json, IOUtils

Tr == ndJsonDeserialize(IOEnv.TRACE_FILE)

VARIABLE i
tvars == <<i>>

Has(r, f) == f \in DOMAIN r
InMro(o, name) == \E j \in 1..Len(o.mro) : o.mro[j] = name
IsLibraryError(o) ==
  o.st = "exc" /\ (InMro(o, "asn1tools.errors.EncodeError") \/ InMro(o, "asn1tools.errors.ConstraintsError"))

ExcKey(phase, o) ==
  IF o.st = "exc" THEN phase \o "-exc:" \o o.cls \o "@" \o o.site
  ELSE IF o.st = "timeout" THEN phase \o "-timeout@" \o o.site
  ELSE IF o.st = "bad" THEN phase \o "-bad:" \o o.msg
  ELSE phase \o "-ok"

V(check, verdict, detail) == [check |-> check, verdict |-> verdict, detail |-> detail]

\* per corruption, computed once per line: applicability, expected and deviating prefix
CorFacts(L) ==
  LET env == L.env
      T == env.types[L.top]
      adm == Force([vi \in 1..Len(L.vals) |-> Admits(env, T, L.vals[vi])])
  IN Force([ci \in 1..Len(L.cors) |->
       LET c == L.cors[ci]
           v == L.vals[c.vi]
           x == Expected(env, T, v, c)
       IN [app |-> Applicable(env, T, v, c), adm |-> adm[c.vi],
           want |-> JoinDot(<<L.tname>> \o x.path)]])

DevWant(L, c) == JoinDot(<<L.tname>> \o DevPath(L.env, L.top, c.pos, L.names))

\* does the *uncorrupted* value vi already fail with the same foreign exception in codec cd?
\* (then the corrupted component was never looked at: a defect of another property)
GoodFailsSame(L, vi, cd, key) ==
  \E j \in 1..Len(L.good) :
     /\ L.good[j].vi = vi /\ Has(L.good[j], "enc")
     /\ \E h \in 1..Len(L.good[j].codecs) : L.good[j].codecs[h] = cd
     /\ L.good[j].enc.st # "ok" /\ ExcKey("enc", L.good[j].enc) = key

\* ... or with the same library error at the same path (JER / XER / GSER refuse a value whose mandatory extension
\* addition is absent -- a finding of C02 / C20 -- before they reach the corrupted component)
GoodFailsSameWay(L, vi, cd, e) ==
  \E j \in 1..Len(L.good) :
     /\ L.good[j].vi = vi /\ Has(L.good[j], "enc")
     /\ \E h \in 1..Len(L.good[j].codecs) : L.good[j].codecs[h] = cd
     /\ L.good[j].enc.st # "ok" /\ ExcKey("enc", L.good[j].enc) = ExcKey("enc", e)
     /\ Has(L.good[j].enc, "pfx") /\ L.good[j].enc.pfx = e.pfx

CorVerdict(L, f, o) ==
  LET c == L.cors[o.ci]
      e == o.enc
      kind == KindName(c)
  IN IF ~f.app THEN V("COR", "machinery", "recorded corruption is not applicable: " \o ToString(c))
     ELSE IF ~f.adm THEN V("COR", "machinery", "the value to corrupt is not well-formed")
     ELSE IF e.st = "ok"
          THEN (IF c.kind \in {"missing", "enum"} /\ InsideAddition(L.env, L.env.types[L.top], c.pos)
                   /\ \A h \in 1..Len(o.codecs) : o.codecs[h] \in SwallowingCodecs
                THEN V("COR", "dev", ToString({"DevAdditionErrorsSwallowed"}))
                ELSE V("COR", "reject", kind \o ": corrupted value was encoded (bytes returned)"))
     ELSE IF ~IsLibraryError(e)
          THEN (IF \A h \in 1..Len(o.codecs) : GoodFailsSame(L, c.vi, o.codecs[h], ExcKey("enc", e))
                THEN V("COR", "skip", "the uncorrupted value already fails the same way: " \o ExcKey("enc", e))
                ELSE V("COR", "reject", kind \o ":" \o ExcKey("enc", e)))
     ELSE IF e.pfx = f.want THEN V("COR", "ok", "")
     ELSE IF e.pfx = DevWant(L, c) THEN V("COR", "dev", ToString({"DevPathRecursiveTypeName"}))
     ELSE IF \A h \in 1..Len(o.codecs) : GoodFailsSameWay(L, c.vi, o.codecs[h], e)
          THEN V("COR", "skip", "the uncorrupted value is already refused there: " \o e.pfx)
     ELSE V("COR", "reject", kind \o ": error path '" \o e.pfx \o "' but the component is at '" \o f.want \o "'")

GoodVerdict(L, o) ==
  LET e == o.enc
      inChecker == e.st = "exc" /\ e.smod = "codecs.type_checker"     \* module of the innermost asn1tools frame
  IN IF inChecker THEN V("GOOD", "reject", "well-typed value rejected by the type check: " \o ExcKey("enc", e))
     ELSE V("GOOD", "ok", "")

Rec(vi, o, vd) == [vi |-> vi, codec |-> o.codec, ne |-> o.ne, w |-> o.w,
                   check |-> vd.check, verdict |-> vd.verdict, detail |-> vd.detail]

LineReport(L) ==
  LET facts == CorFacts(L)
      cor == [j \in 1..Len(L.obs) |->
                LET o == L.obs[j]
                IN IF Has(o, "machinery") THEN Rec(o.ci, o, V("ANY", "machinery", o.machinery))
                   ELSE IF Has(o, "compile") THEN Rec(o.ci, o, V("ANY", "skip", "not compilable: " \o ExcKey("compile", o.compile)))
                   ELSE Rec(o.ci, o, CorVerdict(L, facts[o.ci], o))]
      good == [j \in 1..Len(L.good) |->
                LET o == L.good[j]
                IN IF Has(o, "machinery") THEN Rec(o.vi, o, V("ANY", "machinery", o.machinery))
                   ELSE Rec(o.vi, o, GoodVerdict(L, o))]
      all == cor \o good
      weight(s) == FoldLeft(LAMBDA acc, r : acc + r.w, 0, s)
  IN [cid |-> L.cid, n |-> weight(all),
      ok |-> weight(SelectSeq(all, LAMBDA r : r.verdict = "ok")),
      other |-> SelectSeq(all, LAMBDA r : r.verdict # "ok")]

Emit(r) ==
  Serialize(ToJson(r) \o "\n", IOEnv.VERDICT_FILE,
            [format |-> "TXT", charset |-> "UTF-8", openOptions |-> <<"WRITE", "CREATE", "APPEND">>]).exitValue = 0

Init == i = 1
Next == /\ i <= Len(Tr)
        /\ Emit(LineReport(Tr[i]))
        /\ i' = i + 1
Spec == Init /\ [][Next]_tvars

TraceAccepted == TLCGet("stats").diameter - 1 = Len(Tr)

=============================================================================
