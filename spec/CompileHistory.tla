---------------------------- MODULE CompileHistory ----------------------------
(***************************************************************************)
(* C13: compiling is independent of what was compiled before from the same *)
(* dictionary.                                                             *)
(*                                                                         *)
(* The transition system of *histories* over the mechanism model of        *)
(* CompilePasses.tla.  State: which corpus module, the abstract dictionary *)
(* gM (the only thing that persists between calls), the history so far and *)
(* for every step whether the object it produced differs from the one a    *)
(* fresh parse gives.  Actions: Compile(codec, numeric_enums) - runs        *)
(* pre_process three times on the shared dictionary exactly as             *)
(* compile_dict does - , PformatEval, DeepCopy.                            *)
(*                                                                         *)
(* Requirement (invariant HistoryIndependent):                             *)
(*    View(Compile after any history) = View(Compile of the fresh parse)   *)
(* where the view is what the three compilers of one compile_dict call     *)
(* read.  It reduces to: every pass is idempotent (EachPassIdempotent), a  *)
(* compile leaves a fixpoint (CompileReachesFixpoint), and no pass reads a *)
(* flag that a call with other options wrote.  With Devs =                 *)
(* {DevCompileInPlace} (in-place passes that are idempotent and do not     *)
(* depend on options: a mechanism the property allows; Devs = {} is the    *)
(* trivial one that never touches the caller's dictionary) TLC proves the  *)
(* invariants for ALL histories up to MaxLen over the corpus; with the     *)
(* deviations the code really has (Devs = AllDevs) TLC exhibits the        *)
(* breaking histories.                                                     *)
(*                                                                         *)
(* The same system generates the histories that are replayed into the real *)
(* compile_dict (binding A): Emit writes  [mod, hist, exp]  per state.     *)
(* Without VIEW every history is a state (all histories up to MaxLen);     *)
(* with  VIEW StateView  TLC keeps one - with one worker a shortest -      *)
(* history per distinct model state; -simulate gives long random ones.     *)
(***************************************************************************)
EXTENDS CompilePasses, Json, IOUtils

CONSTANTS Corpus,      \* Seq([name, d: [mods, order, alias]]): abstractions of freshly parsed modules
          Devs,        \* deviations active in the mechanism
          Codecs,      \* set of codec names
          MaxLen,      \* maximal history length
          EmitFrom     \* Emit writes histories of at least this length

FileCorpus == ndJsonDeserialize(IOEnv.MODULES_FILE)

VARIABLES gMod, gM, gHist, gExp, gErr
vars == <<gMod, gM, gHist, gExp, gErr>>

CStep(c, b) == [a |-> "C", codec |-> c, ne |-> b]
PStep == [a |-> "P", codec |-> "", ne |-> FALSE]
DStep == [a |-> "D", codec |-> "", ne |-> FALSE]
Steps == {CStep(c, b) : c \in Codecs, b \in BOOLEAN} \cup {PStep, DStep}

\* what a fresh parse compiles to, per module and numeric_enums (evaluated once)
FreshTable ==
  Force([i \in 1..Len(Corpus) |->
     <<Compile(Corpus[i].d.mods, FALSE, Devs), Compile(Corpus[i].d.mods, TRUE, Devs)>>])
FreshOf(i, ne) == FreshTable[i][IF ne THEN 2 ELSE 1]

Init ==
  /\ gMod \in 1..Len(Corpus)
  /\ gM = Corpus[gMod].d.mods
  /\ gHist = <<>>
  /\ gExp = <<>>
  /\ gErr = ""

DoCompile(st) ==
  LET c == CompileDict(gM, st.ne, Devs)
  IN /\ gM' = c.m
     /\ gErr' = c.err
     /\ gExp' = Append(gExp, View(c) # View(FreshOf(gMod, st.ne)))

DoOther(st) ==
  /\ gM' = IF st.a = "P" THEN PformatEval(gM, Corpus[gMod].d.order, Devs) ELSE DeepCopy(gM)
  /\ gErr' = ""
  /\ gExp' = Append(gExp, FALSE)

Next ==
  /\ Len(gHist) < MaxLen
  /\ \E st \in Steps :
       /\ gHist' = Append(gHist, st)
       /\ IF st.a = "C" THEN DoCompile(st) ELSE DoOther(st)
  /\ UNCHANGED gMod

Spec == Init /\ [][Next]_vars

\* the states TLC distinguishes when histories are collapsed: the dictionary and
\* everything the invariants below read (not the history that led there)
StateView == <<gMod, gM, gErr, IF gExp = <<>> THEN FALSE ELSE gExp[Len(gExp)],
               IF gHist = <<>> THEN DStep ELSE [gHist[Len(gHist)] EXCEPT !.codec = ""]>>

------------------------------------------------------------------------------
(* the requirement and what it reduces to                                   *)

HistoryIndependent == \A k \in 1..Len(gExp) : ~gExp[k]

LastStep == gHist[Len(gHist)]

\* after a compile that returned, pre-processing again (same options) changes nothing
CompileReachesFixpoint ==
  (gHist # <<>> /\ LastStep.a = "C" /\ gErr = "")
     => PreProcess(gM, LastStep.ne, Devs) = [m |-> gM, err |-> ""]

\* every pass is idempotent on every reachable dictionary
EachPassIdempotent ==
  \A mi \in 1..Len(gM) :
     /\ PassCO(PassCO(gM, mi), mi) = PassCO(gM, mi)
     /\ PassEI(PassEI(gM, mi, Devs), mi, Devs) = PassEI(gM, mi, Devs)
     /\ PassTAGS(PassTAGS(gM, mi, Devs), mi, Devs) = PassTAGS(gM, mi, Devs)
     /\ \A ne \in BOOLEAN :
          LET a == PassDEF(gM, mi, ne, Devs)
          IN a.err = "" => PassDEF(a.m, mi, ne, Devs) = a

\* no pass outcome depends on the options of earlier calls: from every reachable
\* dictionary both option values lead to what the fresh parse gives
OptionsDoNotLeak ==
  \A ne \in BOOLEAN : View(Compile(gM, ne, Devs)) = View(FreshOf(gMod, ne))

------------------------------------------------------------------------------
(* binding A: histories for replay                                          *)

Case == [mod |-> Corpus[gMod].name, hist |-> gHist, exp |-> gExp]

Emit ==
  (Len(gHist) >= EmitFrom) =>
     Serialize(ToJson(Case) \o "\n", IOEnv.OUT_FILE,
               [format |-> "TXT", charset |-> "UTF-8", openOptions |-> <<"WRITE", "CREATE", "APPEND">>]).exitValue = 0

=============================================================================
