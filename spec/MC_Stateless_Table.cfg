SPECIFICATION Spec
CONSTANTS
  Threads = {1, 2, 3, 4, 5, 6, 7, 8}
  MaxCalls = 50
  Mech = "Table"
INVARIANT Emit
CHECK_DEADLOCK FALSE
