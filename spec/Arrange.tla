------------------------------- MODULE Arrange ------------------------------
(***************************************************************************)
(* Re-organisations of a specification text as a transition system (C19).  *)
(*                                                                         *)
(* State: an arrangement (ArrangeSem.tla) reached from a seed arrangement, *)
(* the arrangement it was reached from, the action that led here and the   *)
(* list of actions since the seed.  Every action is a re-organisation that *)
(* X.680 says cannot change what the probe type "Top" means:               *)
(*                                                                         *)
(*   PermuteAssignments(m, i)  swap assignments i, i+1 of module m         *)
(*   PermuteModules(i)         swap modules i, i+1 (order of files)        *)
(*   SplitModule(m, S)         move assignments S of module m into a new   *)
(*                             module with the same tag default; IMPORTS   *)
(*                             are added / redirected as needed            *)
(*   Inline(m, a, p)           replace the type reference at position p of *)
(*                             assignment a by a copy of its definition    *)
(*   Extract(m, a, p, mv)      give the inline type at position p a name   *)
(*                             and refer to it (mv: its tags move into the *)
(*                             new definition, else they stay on the       *)
(*                             component)                                  *)
(*                                                                         *)
(* with exactly the side conditions (InlineOk, ExtractOk) under which the  *)
(* notation keeps its meaning.  Invariant checked by TLC: Meaning(arr) is  *)
(* the same before and after every action (MeaningPreserved), and so are   *)
(* the DER encodings of the seed's value table (EncodingPreserved).        *)
(* Every transition is appended to OUT_FILE as one JSON line; the harness  *)
(* renders both arrangements, runs the real compiler and codecs on them    *)
(* and Trace_Arrange.tla compares what they did.                           *)
(***************************************************************************)
EXTENDS ArrangeSem, X690, Json, IOUtils

CONSTANTS MaxSteps,      \* number of actions explored from a seed
          EmitBelow,     \* transitions fewer than this many steps from the seed are emitted (0: none)
          SeedIds,       \* which seeds (subset of 1..NSeeds)
          SeedTagDefs,   \* module tag defaults the seeds are instantiated with
          MaxMods,       \* SplitModule is enabled while there are fewer modules than this
          Mutation       \* "" or the name of a deliberately wrong side condition (model self-test)

VARIABLES gSeed, gArr, gPrev, gAct, gSched
vars == <<gSeed, gArr, gPrev, gAct, gSched>>
View == <<gSeed, gArr, gPrev, gAct>>       \* the schedule is a witness, not part of the state identity

------------------------------------------------------------------------------
(* constructors                                                             *)

NoCon == [f |-> "N"]
TBool == [k |-> "BOOL", tags |-> <<>>]
TNull == [k |-> "NULL", tags |-> <<>>]
TInt == [k |-> "INT", tags |-> <<>>, con |-> NoCon, nn |-> <<>>]
TIntR(lb, ub) == [k |-> "INT", tags |-> <<>>, nn |-> <<>>,
                  con |-> [f |-> "R", lbinf |-> FALSE, ubinf |-> FALSE, lb |-> FromInt(lb), ub |-> FromInt(ub), ext |-> FALSE]]
It(n, v) == [n |-> n, v |-> v]
TEnum(items) == [k |-> "ENUM", tags |-> <<>>, root |-> items, ext |-> FALSE, adds |-> <<>>]
Enum3 == TEnum(<<It("a", 0), It("b", 1), It("c", 2)>>)
TBitsN == [k |-> "BITS", tags |-> <<>>, sz |-> [f |-> "R", lb |-> 4, ub |-> 4, ubinf |-> FALSE, ext |-> FALSE],
           nb |-> <<It("p", 0), It("q", 3)>>]
TOcts == [k |-> "OCTS", tags |-> <<>>, sz |-> [f |-> "R", lb |-> 0, ub |-> 2, ubinf |-> FALSE, ext |-> FALSE]]
Ref(n) == [k |-> "REF", tags |-> <<>>, name |-> n]
Tg(t, cls, num, mode) == [t EXCEPT !.tags = <<[cls |-> cls, num |-> num, mode |-> mode]>> \o t.tags]
Cx(t, num) == Tg(t, "C", num, "D")
Mem(n, t, q, d) == [n |-> n, t |-> t, q |-> q, d |-> d]
Mand(n, t) == Mem(n, t, "M", "NULL")
Opt(n, t) == Mem(n, t, "O", "NULL")
Def(n, t, d) == Mem(n, t, "D", d)
CompOf(n) == Mem("-", Ref(n), "C", "NULL")
Add1(m) == [g |-> FALSE, m |-> m, ms |-> <<>>]
TSeqX(k, root, ext, adds) == [k |-> k, tags |-> <<>>, root |-> root, ext |-> ext, adds |-> adds]
TSeq(root) == TSeqX("SEQ", root, FALSE, <<>>)
TSet(root) == TSeqX("SET", root, FALSE, <<>>)
Alt(n, t) == [n |-> n, t |-> t]
TChoice(alts) == [k |-> "CHOICE", tags |-> <<>>, root |-> alts, ext |-> FALSE, adds |-> <<>>]
NoSz == [f |-> "N"]
TOf(k, e, sz) == [k |-> k, tags |-> <<>>, e |-> e, sz |-> sz]
ListOf(e) == TOf("SEQOF", e, NoSz)
ListOfSz(e, lb, ub) == TOf("SEQOF", e, [f |-> "R", lb |-> lb, ub |-> ub, ubinf |-> FALSE, ext |-> FALSE])
Asg(n, t) == [n |-> n, t |-> t]
Imp(from, syms) == [from |-> from, syms |-> syms]
Mod(name, td, imp, asg) == [name |-> name, td |-> td, imp |-> imp, asg |-> asg]
Bits1001 == [n |-> 4, b |-> <<144>>]

------------------------------------------------------------------------------
(* the seed table: small, feature-rich specifications                       *)

OtherTd(td) == CASE td = "E" -> "A" [] td = "I" -> "E" [] td = "A" -> "I"

NSeeds == 10
TOctsU == [k |-> "OCTS", tags |-> <<>>, sz |-> NoSz]
TBitsU == [k |-> "BITS", tags |-> <<>>, sz |-> NoSz, nb |-> <<>>]
RefSz(n, lb, ub) == [k |-> "REF", tags |-> <<>>, name |-> n, sz |-> [f |-> "R", lb |-> lb, ub |-> ub, ubinf |-> FALSE, ext |-> FALSE]]

Seed(k, td) ==
  CASE k = 1 ->   \* DEFAULT / OPTIONAL components of referenced BOOLEAN, INTEGER, ENUMERATED, BIT STRING; tagged references
    [mods |-> << Mod("M", td, <<>>, <<
       Asg("Bo", TBool), Asg("In", TIntR(0, 10)), Asg("En", Enum3), Asg("Bs", TBitsN),
       Asg("Top", TSeq(<< Def("b", Cx(Ref("Bo"), 0), TRUE), Def("i", Cx(Ref("In"), 1), FromInt(5)),
                          Def("e", Cx(Ref("En"), 2), "b"), Def("s", Cx(Ref("Bs"), 3), Bits1001),
                          Opt("o", Cx(Ref("Bo"), 4)), Mand("z", TIntR(0, 255)) >>)) >>) >>]
   [] k = 2 ->    \* untagged components (automatic tagging applies under "A"), inline and named SEQUENCEs
    [mods |-> << Mod("M", td, <<>>, <<
       Asg("Top", TSeq(<< Def("b", Ref("Bo"), FALSE), Opt("i", TIntR(0, 255)), Def("e", Ref("En"), "c"),
                          Opt("t", Ref("Tn")),
                          Mand("m", TSeq(<< Mand("u", Cx(TNull, 5)), Def("v", Ref("Bo"), FALSE) >>)),
                          Opt("n", Ref("Pt")), Mand("z", TOcts) >>)),
       Asg("Pt", TSeq(<< Mand("p", TBool), Opt("q", TInt) >>)),
       Asg("Bo", TBool), Asg("En", Enum3), Asg("Tn", Tg(TIntR(0, 255), "C", 5, "D")) >>) >>]
   [] k = 3 ->    \* CHOICE (nested), references to tagged types, tags on references to CHOICE, SEQUENCE OF references
    [mods |-> << Mod("M", td, <<>>, <<
       Asg("Ch", TChoice(<< Alt("a", TIntR(0, 7)), Alt("b", TBool),
                            Alt("n", TChoice(<< Alt("x", TNull), Alt("y", TOcts) >>)) >>)),
       Asg("Tn", Tg(TIntR(0, 255), "C", 5, "D")),
       Asg("Li", ListOf(Ref("Ch"))),
       Asg("Tc", Cx(Ref("Ch"), 7)),
       Asg("Top", TSeq(<< Mand("c", Cx(Ref("Ch"), 1)), Opt("t", Ref("Tn")), Mand("u", Cx(Ref("Li"), 2)),
                          Opt("d", Cx(Ref("Tc"), 8)),
                          Mand("l", ListOfSz(Ref("Tn"), 0, 3)),
                          Opt("k", Cx(TChoice(<< Alt("r", Ref("Tn")), Alt("s", Cx(Ref("Ch"), 6)) >>), 3)) >>)) >>) >>]
   [] k = 4 ->    \* (mutual) recursion through SEQUENCE OF, OPTIONAL and CHOICE
    [mods |-> << Mod("M", td, <<>>, <<
       Asg("Top", TSeq(<< Mand("r", Ref("Rec")), Opt("t", Cx(Ref("Tr"), 0)) >>)),
       Asg("Rec", TSeq(<< Mand("v", TIntR(0, 7)), Mand("kids", ListOfSz(Ref("Rec"), 0, 2)), Opt("next", Ref("Tr")) >>)),
       Asg("Tr", TChoice(<< Alt("leaf", TBool), Alt("node", Ref("Rec")) >>)) >>) >>]
   [] k = 5 ->    \* two modules with different tag defaults, IMPORTS, the same name defined differently in both
    [mods |-> << Mod("A", td, << Imp("Bm", <<"Bt", "Cu", "En">>) >>, <<
                   Asg("Aux", TIntR(0, 7)),
                   Asg("Top", TSeq(<< Mand("x", Ref("Bt")), Mand("a", Ref("Aux")), Mand("c", Ref("Cu")),
                                      Mand("w", ListOfSz(Ref("Aux"), 0, 2)),
                                      Opt("y", Ref("Bt")), Def("e", Ref("En"), "b") >>)) >>),
                 Mod("Bm", OtherTd(td), <<>>, <<
                   Asg("Aux", TBool),
                   Asg("Bt", TSeq(<< Mand("a", Ref("Aux")), Opt("q", TChoice(<< Alt("m", TNull), Alt("n", TIntR(0, 255)) >>)),
                                     Def("r", Ref("Aux"), FALSE) >>)),
                   Asg("Cu", TSeq(<< Mand("g", TBool), Opt("h", TChoice(<< Alt("m", TNull), Alt("n", TIntR(0, 255)) >>)) >>)),
                   Asg("En", Enum3) >>) >>]
   [] k = 6 ->    \* COMPONENTS OF across two modules with the same tag default; extension marker in the source
    [mods |-> << Mod("A", td, << Imp("Bm", <<"Ba">>) >>, <<
                   Asg("Top", TSeq(<< Mand("w", TIntR(0, 255)), CompOf("Ba"), Opt("y", TBool) >>)) >>),
                 Mod("Bm", td, <<>>, <<
                   Asg("Ba", TSeqX("SEQ", << Mand("p", TOcts), Opt("q", TEnum(<<It("a", 0), It("b", 1)>>)) >>, TRUE,
                                   << Add1(Opt("x", TNull)) >>)) >>) >>]
   [] k = 7 ->    \* COMPONENTS OF inside one module, the source is also used directly; SET, SET OF
    [mods |-> << Mod("M", td, <<>>, <<
       Asg("Fl", TBool),
       Asg("Ba", TSeq(<< Mand("p", TOcts), Def("q", Ref("Fl"), FALSE) >>)),
       Asg("Wr", TSeq(<< Mand("z", TIntR(0, 255)), CompOf("Ba") >>)),
       Asg("Top", TSet(<< Mand("s", Cx(Ref("Wr"), 0)), Opt("f", Cx(Ref("Fl"), 1)),
                          Mand("g", Cx(TOf("SETOF", Ref("Fl"), NoSz), 2)), Opt("h", Cx(Ref("Ba"), 3)) >>)) >>) >>]
   [] k = 8 ->    \* the same component name and referenced type twice (OPTIONAL / mandatory); extension additions
    [mods |-> << Mod("M", td, <<>>, <<
       Asg("Bo", TBool),
       Asg("Ex", TSeqX("SEQ", << Mand("a", TIntR(0, 255)), Opt("b", Ref("Bo")),
                                 Mand("c", TSeq(<< Mand("b", Ref("Bo")), Opt("g", TIntR(0, 7)) >>)) >>, TRUE,
                       << Add1(Opt("x", Ref("Bo"))) >>)),
       Asg("Top", TSeq(<< Mand("e", Ref("Ex")), Mand("f", Ref("Bo")) >>)) >>) >>]
   [] k = 9 ->    \* SIZE written on a reference; the same component name and referenced type elsewhere without it
    [mods |-> << Mod("M", td, <<>>, <<
       Asg("Id", TOctsU), Asg("Fl", TBitsU),
       Asg("Fx", TSeq(<< Mand("id", RefSz("Id", 4, 4)), Mand("fl", RefSz("Fl", 2, 5)) >>)),
       Asg("Fr", TSeq(<< Mand("id", Ref("Id")), Mand("fl", Ref("Fl")), Opt("k", TBool) >>)),
       Asg("Top", TSeq(<< Mand("a", Ref("Fr")), Mand("b", Ref("Fx")), Mand("id", Ref("Id")),
                          Mand("l", ListOf(RefSz("Id", 0, 2))) >>)) >>) >>]
   [] k = 10 ->   \* DEFAULT of a type reached through two reference hops in another module; only the first name is imported
    [mods |-> << Mod("A", td, << Imp("Bm", <<"Key", "Flg">>) >>, <<
                   Asg("Top", TSeq(<< Def("k", Ref("Key"), <<171, 205>>), Def("f", Ref("Flg"), Bits1001),
                                      Mand("z", TIntR(0, 255)) >>)) >>),
                 Mod("Bm", td, <<>>, <<
                   Asg("Key", Ref("Octs")), Asg("Octs", TOctsU), Asg("Flg", Ref("Bs4")), Asg("Bs4", TBitsN) >>) >>]

------------------------------------------------------------------------------
(* positions inside a descriptor: paths of <<"r", i>> (root component i of a *)
(* SEQUENCE / SET), <<"c", i>> (root alternative i of a CHOICE), <<"e", 0>>  *)
(* (element of a SEQUENCE OF / SET OF); <<>> is the whole right-hand side    *)

RECURSIVE Occs(_, _)
Occs(T, pfx) ==
  CASE T.k \in {"SEQ", "SET"} ->
         Concat([i \in 1..Len(T.root) |->
            IF T.root[i].q = "C" THEN <<>>
            ELSE LET p == pfx \o << <<"r", i>> >> IN <<p>> \o Occs(T.root[i].t, p)])
    [] T.k = "CHOICE" ->
         Concat([i \in 1..Len(T.root) |->
            LET p == pfx \o << <<"c", i>> >> IN <<p>> \o Occs(T.root[i].t, p)])
    [] T.k \in {"SEQOF", "SETOF"} ->
         LET p == pfx \o << <<"e", 0>> >> IN <<p>> \o Occs(T.e, p)
    [] OTHER -> <<>>

RECURSIVE GetAt(_, _)
GetAt(T, p) ==
  IF p = <<>> THEN T
  ELSE LET s == Head(p) IN
       CASE s[1] \in {"r", "c"} -> GetAt(T.root[s[2]].t, Tail(p))
         [] s[1] = "e" -> GetAt(T.e, Tail(p))

RECURSIVE SetAt(_, _, _)
SetAt(T, p, U) ==
  IF p = <<>> THEN U
  ELSE LET s == Head(p) IN
       CASE s[1] \in {"r", "c"} -> [T EXCEPT !.root[s[2]].t = SetAt(@, Tail(p), U)]
         [] s[1] = "e" -> [T EXCEPT !.e = SetAt(@, Tail(p), U)]

\* X.680 25.9 / 29.3 on the text: would this SEQUENCE / SET / CHOICE be tagged automatically?
AutoOf(td, P) ==
  /\ td = "A"
  /\ P.k \in {"SEQ", "SET", "CHOICE"}
  /\ LET cs == IF P.k = "CHOICE" THEN AllAlts(P) ELSE AllMembers(P)
     IN \A i \in 1..Len(cs) : cs[i].t.tags = <<>>

RECURSIVE NoAutoInside(_)
\* no SEQUENCE / SET / CHOICE written in T (references not followed) would be tagged automatically
\* if T stood in an AUTOMATIC TAGS module
NoAutoInside(T) ==
  CASE T.k \in {"SEQ", "SET"} -> /\ ~AutoOf("A", T)
                                 /\ \A i \in 1..Len(AllMembers(T)) : NoAutoInside(AllMembers(T)[i].t)
    [] T.k = "CHOICE" -> /\ ~AutoOf("A", T)
                         /\ \A i \in 1..Len(AllAlts(T)) : NoAutoInside(AllAlts(T)[i].t)
    [] T.k \in {"SEQOF", "SETOF"} -> NoAutoInside(T.e)
    [] OTHER -> TRUE

\* the construct that directly contains position p (the assignment itself for p = <<>>)
ParentAt(T, p) == IF p = <<>> THEN TNull ELSE GetAt(T, Front(p))

------------------------------------------------------------------------------
(* the actions as functions on arrangements                                 *)

SwapAt(s, i) == Force([k \in 1..Len(s) |-> IF k = i THEN s[i + 1] ELSE IF k = i + 1 THEN s[i] ELSE s[k]])

PermAsgOf(arr, mi, i) == [arr EXCEPT !.mods[mi].asg = SwapAt(@, i)]
PermModsOf(arr, i) == [arr EXCEPT !.mods = SwapAt(@, i)]

FreshNames == <<"N1", "N2", "N3", "N4", "N5", "N6", "N7", "N8", "N9">>
NameUsed(arr, n) == \/ HasMod(arr, n)
                    \/ \E i \in 1..Len(arr.mods) : Visible(arr.mods[i], n)
FreshName(arr) == FreshNames[CHOOSE i \in 1..Len(FreshNames) :
                               /\ ~NameUsed(arr, FreshNames[i])
                               /\ \A j \in 1..(i - 1) : NameUsed(arr, FreshNames[j])]

\* import clauses for a set of [from, sym] pairs
GroupImports(pairs) ==
  LET froms == SetToSeq({x.from : x \in pairs})
  IN [k \in 1..Len(froms) |-> Imp(froms[k], SetToSeq({x.sym : x \in {y \in pairs : y.from = froms[k]}}))]

SplitOf(arr, mi, S) ==
  LET old == arr.mods[mi]
      nn == FreshName(arr)
      movedNames == {old.asg[j].n : j \in S}
      movedAsg == SelectSeq(old.asg, LAMBDA a : a.n \in movedNames)
      keptAsg == SelectSeq(old.asg, LAMBDA a : a.n \notin movedNames)
      refsOfAsgs(as) == UNION {RefsOf(as[j].t) : j \in 1..Len(as)}
      needNew == refsOfAsgs(movedAsg) \ movedNames
      \* a name the moved text uses and does not take along: from the old module if defined there,
      \* otherwise from wherever the old module imports it
      newImp == GroupImports({[from |-> IF Defines(old, n) THEN old.name ELSE ImportFrom(old, n), sym |-> n] : n \in needNew})
      needOld == refsOfAsgs(keptAsg) \cap movedNames
      oldImp == old.imp \o (IF needOld = {} THEN <<>> ELSE << Imp(nn, SetToSeq(needOld)) >>)
      \* modules that import a moved name from the old module now import it from the new one
      redirect(m) ==
        [m EXCEPT !.imp = Concat([k \in 1..Len(m.imp) |->
           IF m.imp[k].from # old.name THEN << m.imp[k] >>
           ELSE LET st == SelectSeq(m.imp[k].syms, LAMBDA s : s \notin movedNames)
                    mv == SelectSeq(m.imp[k].syms, LAMBDA s : s \in movedNames)
                IN (IF st # <<>> THEN << Imp(old.name, st) >> ELSE <<>>) \o
                   (IF mv # <<>> THEN << Imp(nn, mv) >> ELSE <<>>)])]
      newOld == Mod(old.name, old.td, oldImp, keptAsg)
      newMod == Mod(nn, old.td, Force(newImp), movedAsg)
  IN [arr EXCEPT !.mods = Concat([i \in 1..Len(arr.mods) |->
                             IF i = mi THEN << newOld, newMod >> ELSE << redirect(arr.mods[i]) >>])]

RECURSIVE Unqual(_, _)
\* back from qualified names to the names as written
Unqual(G, T) ==
  CASE T.k = "REF" -> [T EXCEPT !.name = G.loc[T.name]]
    [] T.k \in {"SEQ", "SET"} ->
         [T EXCEPT !.root = Force(MapMembers(T.root, LAMBDA t : Unqual(G, t))),
                   !.adds = Force([a \in 1..Len(T.adds) |->
                              [T.adds[a] EXCEPT !.m = [T.adds[a].m EXCEPT !.t = Unqual(G, T.adds[a].m.t)],
                                                !.ms = Force(MapMembers(T.adds[a].ms, LAMBDA t : Unqual(G, t)))]])]
    [] T.k = "CHOICE" ->
         [T EXCEPT !.root = Force(MapMembers(T.root, LAMBDA t : Unqual(G, t))),
                   !.adds = Force(MapMembers(T.adds, LAMBDA t : Unqual(G, t)))]
    [] T.k \in {"SEQOF", "SETOF"} -> [T EXCEPT !.e = Unqual(G, T.e)]
    [] OTHER -> T

\* Inline: everything about replacing the reference at (mi, ai, p) by a copy of its definition
InlinePlan(arr, mi, ai, p) ==
  LET mod == arr.mods[mi]
      T == mod.asg[ai].t
      R == GetAt(T, p)
      hi == Home(arr, mi, R.name)
      hmod == arr.mods[hi]
      D == hmod.asg[AsgIndex(hmod, R.name)].t
      sameTd == hmod.td = mod.td \/ Mutation = "InlineCopiesTextAcrossTagDefaults"
      \* Within one tag default the text is copied as it is.  A definition that moves to a module
      \* with another tag default is copied with its tag modes and automatic tags written out
      \* (what its text meant where it stood); G is only needed for that.
      G == GEnv(arr)
      Cq == IF sameTd THEN Qual(arr, hi, D)
            ELSE Tree(G, Qual(arr, hi, D), Ctx(hmod.td, hi), {}, DOMAIN G.types, 99)
      C == IF sameTd THEN D ELSE Unqual(G, Cq)
      \* the names the copy uses: [q : qualified, l : as written, from : defining module]
      uses == IF sameTd
              THEN {[q |-> QName(arr, hi, n), l |-> n, from |-> arr.mods[Home(arr, hi, n)].name] : n \in RefsOf(D)}
              ELSE {[q |-> q, l |-> G.loc[q], from |-> G.mod[q]] : q \in RefsOf(Cq)}
      \* every name the copy uses must denote the same assignment when written in module mi
      nameOk(u) == IF Visible(mod, u.l) THEN QName(arr, mi, u.l) = u.q
                   ELSE \A u2 \in uses : u2.l = u.l => u2.q = u.q
      newImports == GroupImports({[from |-> u.from, sym |-> u.l] : u \in {x \in uses : ~Visible(mod, x.l)}})
      U0 == [C EXCEPT !.tags = R.tags \o @]
      \* a SIZE constraint written on the reference goes with the copy:  Id (SIZE (4))  ->  OCTET STRING (SIZE (4))
      szOk == "sz" \in DOMAIN R => ("sz" \in DOMAIN C /\ C.sz.f = "N")
      U == IF "sz" \in DOMAIN R /\ szOk THEN [U0 EXCEPT !.sz = R.sz] ELSE U0
      T2 == SetAt(T, p, U)
  IN [U |-> U, T2 |-> T2, namesOk |-> szOk /\ \A u \in uses : nameOk(u), imports |-> Force(newImports),
      before |-> ParentAt(T, p), after |-> ParentAt(T2, p), td |-> mod.td, fromTd |-> hmod.td]

\* side conditions under which Inline keeps the meaning
InlineOk(pl) ==
  /\ pl.namesOk
  /\ Len(pl.U.tags) <= 1                             \* the supported notation has at most one tag per type
  \* a tagged definition copied into an automatically tagged construct would switch
  \* automatic tagging off for all its components (X.680 25.9)
  /\ Mutation = "InlineIgnoresAutomaticTagging" \/ AutoOf(pl.td, pl.before) = AutoOf(pl.td, pl.after)
  \* a definition from a module without automatic tagging cannot be written inside an AUTOMATIC TAGS
  \* module if that would tag its components automatically (writing tags out cannot prevent it)
  /\ \/ Mutation = "InlineIntoAutomaticModule"
     \/ (pl.td = "A" /\ pl.fromTd # "A") => NoAutoInside(pl.U)

\* merge import clauses (same source module: one clause)
AddImports(imp, more) ==
  LET pairsOf(cl) == UNION {{[from |-> cl[k].from, sym |-> cl[k].syms[h]] : h \in 1..Len(cl[k].syms)} : k \in 1..Len(cl)}
      all == pairsOf(imp) \cup pairsOf(more)
  IN IF more = <<>> THEN imp ELSE Force(GroupImports(all))

InlineOf(arr, mi, ai, pl) ==
  [arr EXCEPT !.mods[mi].asg[ai].t = pl.T2, !.mods[mi].imp = AddImports(@, pl.imports)]

\* Extract: name the inline type at (mi, ai, p)
ExtractPlan(arr, mi, ai, p, mv) ==
  LET mod == arr.mods[mi]
      T == mod.asg[ai].t
      X == GetAt(T, p)
      nn == FreshName(arr)
      def == IF mv THEN X ELSE [X EXCEPT !.tags = <<>>]
      occ == [k |-> "REF", name |-> nn, tags |-> IF mv THEN <<>> ELSE X.tags]
      T2 == SetAt(T, p, occ)
  IN [nn |-> nn, def |-> def, T2 |-> T2, before |-> ParentAt(T, p), after |-> ParentAt(T2, p), td |-> mod.td]

\* side condition: moving the tags away from a component must not switch automatic tagging on
ExtractOk(pl) == Mutation = "ExtractIgnoresAutomaticTagging" \/ AutoOf(pl.td, pl.before) = AutoOf(pl.td, pl.after)

ExtractOf(arr, mi, ai, pl) ==
  [arr EXCEPT !.mods[mi].asg = Append([@ EXCEPT ![ai].t = pl.T2], Asg(pl.nn, pl.def))]

------------------------------------------------------------------------------
(* the transition system                                                    *)

Act(a, m, i, p, mv, set) == [a |-> a, m |-> m, i |-> i, p |-> p, mv |-> mv, set |-> set]
NoAct == Act("Seed", 0, 0, <<>>, FALSE, <<>>)

Init ==
  /\ \E k \in SeedIds, td \in SeedTagDefs : gSeed = [k |-> k, td |-> td]
  /\ gArr = Seed(gSeed.k, gSeed.td)
  /\ gPrev = gArr
  /\ gAct = NoAct
  /\ gSched = <<>>

Step(a, new) ==
  /\ gArr' = new
  /\ gPrev' = gArr
  /\ gAct' = a
  /\ gSched' = Append(gSched, a)
  /\ UNCHANGED gSeed

PermuteAssignments ==
  \E mi \in 1..Len(gArr.mods) : \E i \in 1..(Len(gArr.mods[mi].asg) - 1) :
     Step(Act("PermuteAssignments", mi, i, <<>>, FALSE, <<>>), PermAsgOf(gArr, mi, i))

PermuteModules ==
  \E i \in 1..(Len(gArr.mods) - 1) :
     Step(Act("PermuteModules", 0, i, <<>>, FALSE, <<>>), PermModsOf(gArr, i))

SplitModule ==
  /\ Len(gArr.mods) < MaxMods
  /\ \E mi \in 1..Len(gArr.mods) :
       LET n == Len(gArr.mods[mi].asg) IN
       \E S \in SUBSET (1..n) :
          /\ S # {} /\ S # 1..n
          /\ Cardinality(S) <= 2
          /\ Step(Act("SplitModule", mi, 0, <<>>, FALSE, SetToSeq(S)), SplitOf(gArr, mi, S))

Inline ==
  \E mi \in 1..Len(gArr.mods) : \E ai \in 1..Len(gArr.mods[mi].asg) :
     LET T == gArr.mods[mi].asg[ai].t
         ps == <<(<<>>)>> \o Occs(T, <<>>)
     IN \E h \in 1..Len(ps) :
          /\ GetAt(T, ps[h]).k = "REF"
          /\ LET pl == InlinePlan(gArr, mi, ai, ps[h]) IN
               /\ InlineOk(pl)
               /\ Step(Act("Inline", mi, ai, ps[h], FALSE, <<>>), InlineOf(gArr, mi, ai, pl))

Extract ==
  \E mi \in 1..Len(gArr.mods) : \E ai \in 1..Len(gArr.mods[mi].asg) :
     LET T == gArr.mods[mi].asg[ai].t
         ps == Occs(T, <<>>)
     IN \E h \in 1..Len(ps) : \E mv \in BOOLEAN :
          LET X == GetAt(T, ps[h]) IN
          /\ X.k # "REF"
          /\ mv => X.tags # <<>>
          /\ \E i \in 1..Len(FreshNames) : ~NameUsed(gArr, FreshNames[i])
          /\ LET pl == ExtractPlan(gArr, mi, ai, ps[h], mv) IN
               /\ ExtractOk(pl)
               /\ Step(Act("Extract", mi, ai, ps[h], mv, <<>>), ExtractOf(gArr, mi, ai, pl))

\* Permutations commute with the structural actions (up to renumbering of positions) and the new
\* assignment / module of Extract / SplitModule is placed last, so every arrangement reachable in n
\* steps is reachable in n steps by a schedule "structural actions first, then permutations":
\* only those schedules are explored.
Permuting == gAct.a \in {"PermuteAssignments", "PermuteModules"}

Next ==
  /\ Len(gSched) < MaxSteps
  /\ \/ PermuteAssignments
     \/ PermuteModules
     \/ ~Permuting /\ (SplitModule \/ Inline \/ Extract)

Spec == Init /\ [][Next]_vars

------------------------------------------------------------------------------
(* model-level properties                                                   *)

\* the invariant of C19 on the model: no action changes what the probe type means.
\* MeaningPreservedStep is the statement; MeaningPreserved is the same by induction over the
\* schedule (every arrangement means what its seed means) and needs one Meaning per state.
TdIndex(td) == CASE td = "E" -> 1 [] td = "I" -> 2 [] td = "A" -> 3
SeedMeaning == Force([k \in 1..NSeeds |-> Force([t \in 1..3 |-> Meaning(Seed(k, <<"E", "I", "A">>[t]))])])
MeaningPreservedStep == TreeEq(Meaning(gArr), Meaning(gPrev))
MeaningPreserved == TreeEq(Meaning(gArr), SeedMeaning[gSeed.k][TdIndex(gSeed.td)])

ArrangementWellFormed == WfArr(gArr)

------------------------------------------------------------------------------
(* the value table of a seed: boundary values of the probe type, built       *)
(* type-directed like TypeGen!Values (a SEQUENCE takes a base value and      *)
(* one-hot variations of every component, OPTIONAL / DEFAULT ones also       *)
(* absent; a CHOICE every alternative; fuel bounds recursive types)          *)

DedupSeq(s) == FoldLeft(LAMBDA acc, x : IF \E i \in 1..Len(acc) : acc[i] = x THEN acc ELSE Append(acc, x), <<>>, s)

LeafValues(t) ==
  CASE t.k = "BOOL" -> <<TRUE, FALSE>>
    [] t.k = "NULL" -> <<"NULL">>
    [] t.k = "INT" -> IF t.con.f = "N" THEN <<FromInt(0), FromInt(-1), FromInt(128), FromInt(65536)>>
                      ELSE DedupSeq(<<t.con.lb, t.con.ub, Succ(t.con.lb)>>)
    [] t.k = "ENUM" -> [i \in 1..Len(AllAlts(t)) |-> AllAlts(t)[i].n]
    [] t.k = "BITS" -> LET n == IF t.sz.f = "N" THEN 3 ELSE t.sz.lb
                       IN << [n |-> n, b |-> BitsToBytes([i \in 1..n |-> i % 2])],
                             [n |-> n, b |-> BitsToBytes([i \in 1..n |-> 1])],
                             [n |-> n, b |-> BitsToBytes([i \in 1..n |-> 0])] >>
    [] t.k = "OCTS" -> LET lo == IF t.sz.f = "N" THEN 0 ELSE t.sz.lb
                           hi == IF t.sz.f = "N" THEN 3 ELSE t.sz.ub
                       IN DedupSeq(<< [j \in 1..lo |-> (j * 37) % 256], [j \in 1..hi |-> (j * 91 + 7) % 256] >>)

RECURSIVE ValuesOf(_, _, _)
ValuesOf(e, t, fuel) ==
  CASE t.k = "REF" -> ValuesOf(e, e.types[t.name], IF fuel = 0 THEN 0 ELSE fuel - 1)
    [] t.k \in {"SEQ", "SET"} ->
         LET ms == AllMembers(t)
             names == {ms[i].n : i \in 1..Len(ms)}
             allvs == Force([i \in 1..Len(ms) |-> IF fuel = 0 /\ ms[i].q # "M" THEN <<>> ELSE ValuesOf(e, ms[i].t, fuel)])
             first(i) == IF allvs[i] = <<>> THEN Absent ELSE Present(allvs[i][1])
             base == [nm \in names |-> first(MemberIndex(ms, nm))]
             hot(i) == [j \in 1..Max2(0, Len(allvs[i]) - 1) |-> [base EXCEPT ![ms[i].n] = Present(allvs[i][j + 1])]]
                       \o (IF (ms[i].q # "M" \/ i > Len(t.root)) /\ allvs[i] # <<>> THEN <<[base EXCEPT ![ms[i].n] = Absent]>> ELSE <<>>)
         IN <<base>> \o Concat([i \in 1..Len(ms) |-> hot(i)])
    [] t.k = "CHOICE" ->
         LET alts == AllAlts(t)
             pick(i) == IF fuel = 0 /\ i > 1 THEN <<>>
                        ELSE LET vs == ValuesOf(e, alts[i].t, fuel)
                             IN [j \in 1..Min2(Len(vs), IF fuel = 0 THEN 1 ELSE 2) |-> [a |-> alts[i].n, v |-> vs[j]]]
         IN Concat([i \in 1..Len(alts) |-> pick(i)])
    [] t.k \in {"SEQOF", "SETOF"} ->
         LET lo == IF t.sz.f = "N" THEN 0 ELSE t.sz.lb
             hi == IF t.sz.f = "N" THEN 2 ELSE t.sz.ub
             ev == Force(ValuesOf(e, t.e, fuel))
             mk(n, off) == [j \in 1..n |-> ev[((j + off) % Len(ev)) + 1]]
         IN IF fuel = 0 \/ ev = <<>> THEN (IF lo = 0 THEN <<(<<>>)>> ELSE <<mk(lo, 0)>>)
            ELSE DedupSeq(<<mk(hi, 0), mk(lo, 1), mk(Min2(hi, lo + 1), 2)>>)
    [] OTHER -> LeafValues(t)

MaxVals == 12
Sample(vs, n) ==
  IF Len(vs) <= n THEN vs
  ELSE [i \in 1..n |-> vs[1 + (((i - 1) * (Len(vs) - 1)) \div (n - 1))]]
SeedEnv(sd) == NFEnv(Seed(sd.k, sd.td), {})
SeedVals(sd) == LET e == SeedEnv(sd) IN Sample(ValuesOf(e, e.types[ProbeName], 2), MaxVals)

\* ... and therefore no action changes an encoding (checked with the DER rules of X690.tla)
EncodingPreserved ==
  LET vs == SeedVals(gSeed)
      ea == NFEnv(gArr, {})
      ep == NFEnv(gPrev, {})
  IN \A i \in 1..Len(vs) :
       DerEnc(ea, ea.types[ProbeName], vs[i], {}) = DerEnc(ep, ep.types[ProbeName], vs[i], {})

\* the seeds are legal ASN.1: their values are admitted and component tags are distinct where required
RECURSIVE AllTagsLegal(_, _, _)
AllTagsLegal(env, T, fuel) ==
  /\ TagsLegal(env, T)
  /\ fuel > 0 =>
      CASE T.k = "REF" -> AllTagsLegal(env, env.types[T.name], fuel - 1)
        [] T.k \in {"SEQ", "SET"} -> \A i \in 1..Len(AllMembers(T)) : AllTagsLegal(env, ComponentType(env, T, i), fuel)
        [] T.k = "CHOICE" -> \A i \in 1..Len(AllAlts(T)) : AllTagsLegal(env, ComponentType(env, T, i), fuel)
        [] T.k \in {"SEQOF", "SETOF"} -> AllTagsLegal(env, T.e, fuel)
        [] OTHER -> TRUE

SeedLegal(sd) ==
  LET e == SeedEnv(sd)  vs == SeedVals(sd) IN
  /\ WfArr(Seed(sd.k, sd.td))
  /\ AllTagsLegal(e, e.types[ProbeName], 3)
  /\ \A i \in 1..Len(vs) : Admits(e, e.types[ProbeName], vs[i])

------------------------------------------------------------------------------
(* emission of transitions for the harness (binding A)                      *)

SeedId(sd) == "s" \o ToString(sd.k) \o sd.td

Line ==
  LET base == [seed |-> SeedId(gSeed), act |-> gAct, sched |-> gSched, prev |-> gPrev, arr |-> gArr,
               steps |-> Len(gSched)]
  IN IF gSched = <<>>
     THEN base @@ [venv |-> SeedEnv(gSeed), vals |-> SeedVals(gSeed)]
     ELSE base

Emit ==
  Len(gSched) < EmitBelow =>
    Serialize(ToJson(Line) \o "\n", IOEnv.OUT_FILE,
              [format |-> "TXT", charset |-> "UTF-8", openOptions |-> <<"WRITE", "CREATE", "APPEND">>]).exitValue = 0

=============================================================================
