------------------------------- MODULE Corrupt ------------------------------
(***************************************************************************)
(* C12: value corruption as a transition system.                           *)
(*                                                                         *)
(* From a well-formed <<T, v>> (a state of the type grammar plus PickValue)*)
(* the action CorruptAt picks a component position p -- any node of the    *)
(* value tree -- and a corruption kind applicable there:                   *)
(*                                                                         *)
(*   type     WrongPyType(tau): the component is replaced by a Python      *)
(*            object of a type the type checker is specified to reject     *)
(*            there (Accepts below is type_checker.py's own table)         *)
(*   alt      UnknownAlternative: a CHOICE value names no alternative      *)
(*   enum     UnknownEnumName: an ENUMERATED value names no item (a number *)
(*            of no item under numeric_enums)                              *)
(*   missing  MissingMandatory: a mandatory root member of a SEQUENCE/SET  *)
(*            is removed; the faulty component is the containing value     *)
(*   con      ConstraintViolation: a leaf is moved just outside one bound  *)
(*            of a non-extensible constraint (Constraints / ConGen)        *)
(*                                                                         *)
(* Expected(c) = [cls, path]: the library's EncodeError (ConstraintsError  *)
(* for con) whose text starts with  TypeName.member.member...:  -- the     *)
(* member / alternative names of the position, list indices contribute     *)
(* nothing.  The corrupted Python object is not an abstract value, so a    *)
(* corruption is emitted as a *patch instruction* [kind, pos, tau, ...]    *)
(* that the driver applies to the Python value of v.                       *)
(***************************************************************************)
EXTENDS ConGen

CONSTANT Stages        \* TRUE: PickValue / CorruptAt are enabled (model checking); FALSE: generator only

VARIABLES gStage, gVi, gCi
cvars == <<gEnv, gT, gDepth, gStage, gVi, gCi>>

------------------------------------------------------------------------------
(* what the type checker is specified to accept / reject                    *)

\* Python objects the driver can put in place of a component
TauUniverse == <<"None", "bool", "int", "float", "str", "bytes", "list", "dict",
                 "tuple0", "tuple3", "tuple2s", "tuple2b">>
   \* tuple2s = ("zz", 1): the (str, object) shape of a CHOICE;  tuple2b = (b"\x00", 1): the BIT STRING shape

\* codecs/type_checker.py, one line per class (isinstance tables; bool is an int in Python)
Accepts(kind, ne) ==
  CASE kind = "BOOL" -> {"bool"}
    [] kind = "INT" -> {"int", "bool", "str"}
    [] kind = "REAL" -> {"float", "int", "bool"}
    [] kind = "NULL" -> {"None"}
    [] kind = "BITS" -> {"tuple2b"}
    [] kind = "OCTS" -> {"bytes"}
    [] kind \in {"STR", "OID"} -> {"str"}
    [] kind = "ENUM" -> IF ne THEN {"int", "bool"} ELSE {"str"}
    [] kind \in {"SEQ", "SET"} -> {"dict"}
    [] kind \in {"SEQOF", "SETOF"} -> {"list"}
    [] kind = "CHOICE" -> {"tuple2s"}

\* numeric_enums settings under which tau is rejected for this kind
RejectedUnder(kind, tau) == SelectSeq(<<FALSE, TRUE>>, LAMBDA ne : tau \notin Accepts(kind, ne))

------------------------------------------------------------------------------
(* nodes of a value tree                                                    *)

RECURSIVE Nodes(_, _, _)
\* pre-order sequence of [pos, t : the (unresolved) type of the node, x : its value]
Nodes(e, T, v) ==
  LET Bt == Base(e, T)
      under(st, sub) == [j \in 1..Len(sub) |-> [pos |-> <<st>> \o sub[j].pos, t |-> sub[j].t, x |-> sub[j].x]]
      kids ==
        CASE Bt.k \in {"SEQ", "SET"} ->
               LET ms == AllMembers(Bt)
               IN Concat([j \in 1..Len(ms) |->
                    IF v[ms[j].n].p THEN under(MStep(ms[j].n), Nodes(e, ms[j].t, v[ms[j].n].v)) ELSE <<>>])
          [] Bt.k = "CHOICE" ->
               LET alts == AllAlts(Bt)
               IN under(AStep(v.a), Nodes(e, alts[MemberIndex(alts, v.a)].t, v.v))
          [] Bt.k \in {"SEQOF", "SETOF"} ->
               Concat([j \in 1..Len(v) |-> under(IStep(j), Nodes(e, Bt.e, v[j]))])
          [] OTHER -> <<>>
  IN <<[pos |-> <<>>, t |-> T, x |-> v]>> \o kids

RECURSIVE TypeAt(_, _, _)
\* the type of the node at pos (positions are type-directed: no value needed)
TypeAt(e, T, pos) ==
  IF pos = <<>> THEN T
  ELSE LET Bt == Base(e, T)
       IN CASE pos[1].s = "m" -> TypeAt(e, AllMembers(Bt)[MemberIndex(AllMembers(Bt), pos[1].n)].t, Tail(pos))
            [] pos[1].s = "a" -> TypeAt(e, AllAlts(Bt)[MemberIndex(AllAlts(Bt), pos[1].n)].t, Tail(pos))
            [] pos[1].s = "i" -> TypeAt(e, Bt.e, Tail(pos))

\* does pos lead to a node of v : T ?
RECURSIVE ReachesNode(_, _, _, _)
ReachesNode(e, T, v, pos) ==
  pos = <<>> \/
  LET Bt == Base(e, T)
  IN CASE pos[1].s = "m" ->
            /\ Bt.k \in {"SEQ", "SET"} /\ HasMember(AllMembers(Bt), pos[1].n) /\ v[pos[1].n].p
            /\ ReachesNode(e, AllMembers(Bt)[MemberIndex(AllMembers(Bt), pos[1].n)].t, v[pos[1].n].v, Tail(pos))
       [] pos[1].s = "a" ->
            /\ Bt.k = "CHOICE" /\ v.a = pos[1].n /\ HasMember(AllAlts(Bt), pos[1].n)
            /\ ReachesNode(e, AllAlts(Bt)[MemberIndex(AllAlts(Bt), pos[1].n)].t, v.v, Tail(pos))
       [] pos[1].s = "i" ->
            /\ Bt.k \in {"SEQOF", "SETOF"} /\ pos[1].i \in 1..Len(v)
            /\ ReachesNode(e, Bt.e, v[pos[1].i], Tail(pos))

------------------------------------------------------------------------------
(* corruptions                                                              *)

NoValue == "NULL"
Cor(kind, pos, tau, nes, member, num, v2, nb) ==
  [kind |-> kind, pos |-> pos, tau |-> tau, nes |-> nes, member |-> member, num |-> num, v2 |-> v2, nb |-> nb]

BothNe == <<FALSE, TRUE>>

\* a number no item of the ENUMERATED type has
UnusedNumber(Bt) ==
  LET items == AllAlts(Bt)
  IN 1 + FoldLeft(LAMBDA acc, it : IF it.v > acc THEN it.v ELSE acc, 0, items)

\* every corruption applicable at one node
NodeCorruptions(e, node) ==
  LET Bt == Base(e, node.t)
      wrong == Concat([j \in 1..Len(TauUniverse) |->
                 LET nes == RejectedUnder(Bt.k, TauUniverse[j])
                 IN IF nes = <<>> THEN <<>>
                    ELSE <<Cor("type", node.pos, TauUniverse[j], nes, "", 0, NoValue, "")>>])
      special ==
        CASE Bt.k = "CHOICE" -> <<Cor("alt", node.pos, "", BothNe, "", 0, NoValue, "")>>
          [] Bt.k = "ENUM" -> <<Cor("enum", node.pos, "", BothNe, "", UnusedNumber(Bt), NoValue, "")>>
          [] Bt.k \in {"SEQ", "SET"} ->
               Concat([j \in 1..Len(Bt.root) |->
                  IF Bt.root[j].q = "M" THEN <<Cor("missing", node.pos, "", BothNe, Bt.root[j].n, 0, NoValue, "")>>
                  ELSE <<>>])
          [] OTHER -> <<>>
  IN wrong \o special

\* the constraint violations: variants of ConGen that leave the constraint
ConCorruptions(e, T, v) ==
  LET vs == Variants(e, T, v)
      out == SelectSeq(vs, LAMBDA w : ~ConAdmits(e, T, w.v))
  IN [j \in 1..Len(out) |-> Cor("con", out[j].pos, "", BothNe, "", 0, out[j].v, out[j].nb)]

Corruptions(e, T, v) ==
  LET ns == Nodes(e, T, v)
  IN Concat([j \in 1..Len(ns) |-> NodeCorruptions(e, ns[j])]) \o ConCorruptions(e, T, v)

CorKey(c) == PosKey(c.pos) \o "#" \o c.kind \o "#" \o c.tau \o c.member \o c.nb

KindName(c) ==
  CASE c.kind = "type" -> "WrongPyType(" \o c.tau \o ")"
    [] c.kind = "alt" -> "UnknownAlternative"
    [] c.kind = "enum" -> "UnknownEnumName"
    [] c.kind = "missing" -> "MissingMandatory"
    [] c.kind = "con" -> "ConstraintViolation"

\* Is c a corruption the property quantifies over, for v : T ?  (used by the trace
\* specification on recorded patches, and as an invariant of the generator)
Applicable(e, T, v, c) ==
  /\ ReachesNode(e, T, v, c.pos)
  /\ LET Bt == Base(e, TypeAt(e, T, c.pos))
     IN CASE c.kind = "type" -> /\ c.nes # <<>>
                                /\ \A j \in 1..Len(c.nes) : c.tau \notin Accepts(Bt.k, c.nes[j])
          [] c.kind = "alt" -> Bt.k = "CHOICE"
          [] c.kind = "enum" -> Bt.k = "ENUM" /\ \A j \in 1..Len(AllAlts(Bt)) : AllAlts(Bt)[j].v # c.num
          [] c.kind = "missing" -> /\ Bt.k \in {"SEQ", "SET"}
                                   /\ \E j \in 1..Len(Bt.root) : Bt.root[j].n = c.member /\ Bt.root[j].q = "M"
          [] c.kind = "con" -> LET vp == ViolationPaths(e, T, c.v2)
                               IN vp # <<>> /\ \A j \in 1..Len(vp) : vp[j].pos = c.pos

\* what the specification expects from encode(check_types=True, check_constraints=True)
Expected(e, T, v, c) ==
  [cls |-> IF c.kind = "con" THEN "ConstraintsError" ELSE "EncodeError",
   path |-> NamePath(c.pos)]

(* Named deviation of the path rule.  DevPathRecursiveTypeName: where the   *)
(* position crosses a reference to a type that is being expanded (a         *)
(* recursive reference), the name of the referenced type is inserted after  *)
(* the member name (type_checker.Recursive.encode adds its inner type as a  *)
(* location; the codecs' Recursive classes do the same).                    *)
RECURSIVE PathRec(_, _, _, _, _)
PathRec(e, T, pos, bt, names) ==
  IF T.k = "REF"
  THEN IF \E j \in 1..Len(bt) : bt[j] = T.name
       THEN <<names[T.name]>> \o PathRec(e, e.types[T.name], pos, bt, names)
       ELSE PathRec(e, e.types[T.name], pos, Append(bt, T.name), names)
  ELSE IF pos = <<>> THEN <<>>
  ELSE CASE pos[1].s = "m" ->
              <<pos[1].n>> \o PathRec(e, AllMembers(T)[MemberIndex(AllMembers(T), pos[1].n)].t, Tail(pos), bt, names)
         [] pos[1].s = "a" ->
              <<pos[1].n>> \o PathRec(e, AllAlts(T)[MemberIndex(AllAlts(T), pos[1].n)].t, Tail(pos), bt, names)
         [] pos[1].s = "i" -> PathRec(e, T.e, Tail(pos), bt, names)

\* names : abstract type name -> the name the type was compiled under
DevPath(e, top, pos, names) == PathRec(e, e.types[top], pos, <<top>>, names)

------------------------------------------------------------------------------
(* the transition system                                                    *)

\* well-formed values of the current type: TypeGen's table, admitted ones only
GoodBase ==
  LET vs == Values(gEnv, gT, 3)
      ok == SelectSeq(vs, LAMBDA x : ConAdmits(ConEnv, gT, x))
  IN SubSeq(ok, 1, Min2(Len(ok), MaxBase))

\* constraints written on references are C11's subject (three open deviations there): not corrupted here
CorInit == ConInit /\ gT.k # "REF" /\ gStage = "type" /\ gVi = 0 /\ gCi = 0

Grow == gStage = "type" /\ ConNext /\ UNCHANGED <<gStage, gVi, gCi>>

PickValue ==
  /\ Stages /\ gStage = "type"
  /\ \E vi \in 1..Len(GoodBase) : gVi' = vi
  /\ gStage' = "value"
  /\ UNCHANGED <<gEnv, gT, gDepth, gCi>>

CorruptAt ==
  /\ Stages /\ gStage = "value"
  /\ \E ci \in 1..Len(Corruptions(ConEnv, gT, GoodBase[gVi])) : gCi' = ci
  /\ gStage' = "corrupt"
  /\ UNCHANGED <<gEnv, gT, gDepth, gVi>>

CorNext == Grow \/ PickValue \/ CorruptAt
CorSpec == CorInit /\ [][CorNext]_cvars

\* (M) in every corrupt state the corruption is one the property quantifies over, its
\* expected path leads to the corrupted component, and the deviation path differs from
\* the expected one only when the position crosses a recursive reference
IdNames == [x \in DOMAIN ConEnv.types |-> x]
CrossesRecursion(e, top, pos) == DevPath(e, top, pos, [x \in DOMAIN e.types |-> x]) # NamePath(pos)

CorruptStateOk ==
  gStage = "corrupt" =>
    LET v == GoodBase[gVi]
        c == Corruptions(ConEnv, gT, v)[gCi]
        x == Expected(ConEnv, gT, v, c)
    IN /\ Applicable(ConEnv, gT, v, c)
       /\ Admits(ConEnv, gT, v)
       /\ x.path = NamePath(c.pos)
       /\ Len(x.path) <= Len(c.pos)
       /\ (~CrossesRecursion(ConEnv, "Top", c.pos)) => DevPath(ConEnv, "Top", c.pos, IdNames) = x.path

------------------------------------------------------------------------------
(* emission (binding A): one behaviour per type state                       *)

MaxCor == 400

CorCase ==
  LET base == GoodBase
      all == Concat([vi \in 1..Len(base) |->
                LET cs == Corruptions(ConEnv, gT, base[vi])
                IN [h \in 1..Len(cs) |-> [c |-> cs[h], from |-> vi, key |-> CorKey(cs[h])]]])
      uniq == FirstPerKey(all)
      cors == SubSeq(uniq, 1, Min2(Len(uniq), MaxCor))
  IN [env |-> ConEnv, top |-> "Top", depth |-> gDepth, vals |-> base,
      cors |-> [h \in 1..Len(cors) |->
                  LET c == cors[h].c
                      x == Expected(ConEnv, gT, base[cors[h].from], c)
                  IN [vi |-> cors[h].from, kind |-> c.kind, pos |-> c.pos, tau |-> c.tau, nes |-> c.nes,
                      member |-> c.member, num |-> c.num, v2 |-> c.v2, nb |-> c.nb,
                      exp |-> [cls |-> x.cls, path |-> x.path]]]]

CorEmit ==
  gStage = "type" =>
    LET c == CorCase
    IN /\ \A h \in 1..Len(c.cors) :
            Applicable(c.env, gT, c.vals[c.cors[h].vi], c.cors[h])
            \/ Assert(FALSE, <<"generated corruption is not applicable", c.cors[h]>>)
       /\ ConWrite(c)

=============================================================================
