------------------------------- MODULE Corrupt ------------------------------
(***************************************************************************)
(* C12: value corruption as a transition system.                           *)
(*                                                                         *)
(* From a well-formed <<T, v>> (a state of the type grammar plus PickValue)*)
(* the action CorruptAt picks a component position p -- any node of the    *)
(* value tree -- and a corruption kind applicable there:                   *)
(*                                                                         *)
(*   type     WrongPyType(tau): the component is replaced by a Python      *)
(*            object of a type the type checker is specified to reject     *)
(*            there (Accepts below is type_checker.py's own table)         *)
(*   alt      UnknownAlternative: a CHOICE value names no alternative      *)
(*   enum     UnknownEnumName: an ENUMERATED value names no item (a number *)
(*            of no item under numeric_enums)                              *)
(*   missing  MissingMandatory: a mandatory root member of a SEQUENCE/SET  *)
(*            is removed; the faulty component is the containing value     *)
(*   con      ConstraintViolation: a leaf is moved just outside one bound  *)
(*            of a non-extensible constraint (Constraints / ConGen)        *)
(*                                                                         *)
(* Expected(c) = [cls, path]: the library's EncodeError (ConstraintsError  *)
(* for con) whose text starts with  TypeName.member.member...:  -- the     *)
(* member / alternative names of the position, list indices contribute     *)
(* nothing.  The corrupted Python object is not an abstract value, so a    *)
(* corruption is emitted as a *patch instruction* [kind, pos, tau, ...]    *)
(* that the driver applies to the Python value of v.                       *)
(***************************************************************************)
EXTENDS ConGen, CorruptRules

CONSTANTS Stages,      \* TRUE: PickValue / CorruptAt are enabled (model checking); FALSE: generator only
          Taus         \* the set of Python type tags tried at every node (a subset of TauUniverse)

VARIABLES gStage, gVi, gCi
cvars == <<gEnv, gT, gDepth, gStage, gVi, gCi>>

------------------------------------------------------------------------------
(* corruptions of one value (CorruptRules + the constraint variants of ConGen) *)

\* the constraint violations: variants of ConGen that leave the constraint
ConCorruptions(e, T, v) ==
  LET vs == Variants(e, T, v)
      out == SelectSeq(vs, LAMBDA w : ~ConAdmits(e, T, w.v))
  IN [j \in 1..Len(out) |-> Cor("con", out[j].pos, "", BothNe, "", 0, out[j].v, out[j].nb)]

Corruptions(e, T, v) ==
  LET ns == Nodes(e, T, v)
  IN Concat([j \in 1..Len(ns) |-> NodeCorruptions(e, ns[j], SelectSeq(TauUniverse, LAMBDA t : t \in Taus))]) \o ConCorruptions(e, T, v)

CorKey(c) == PosKey(c.pos) \o "#" \o c.kind \o "#" \o c.tau \o c.member \o c.nb

------------------------------------------------------------------------------
(* the transition system                                                    *)

\* well-formed values of the current type: TypeGen's table, admitted ones only
GoodBase ==
  LET vs == Values(gEnv, gT, 3)
      ok == SelectSeq(vs, LAMBDA x : ConAdmits(ConEnv, gT, x))
  IN SubSeq(ok, 1, Min2(Len(ok), MaxBase))

\* leaf types: ConGen's (constraints written on references are C11's subject -- three open
\* deviations there -- and are not corrupted here) plus every kind the type checker knows
\* a CHOICE as the element of a SEQUENCE OF / SET OF, its alternatives holding mandatory members and ENUMERATED
\* items: the codecs have separate code for list elements (XER: encode_of), with its own location bookkeeping
CorElemChoice ==
  TChoice(<<Alt("x", Tagged(TSeq("SEQ", <<Mand("m", TBool), Mand("e", EnumTypes[2])>>, FALSE, <<>>), Tag("C", 0, "D"))),
            Alt("k", Tagged(EnumTypes[2], Tag("C", 1, "D"))),
            Alt("b", Tagged(TBool, Tag("C", 2, "D")))>>, FALSE, <<>>)
CorListOfChoice ==
  TSeq("SEQ", <<Mand("l", TOf("SEQOF", CorElemChoice, NoSz)), Mand("s", TOf("SETOF", CorElemChoice, Sz(0, 3, FALSE)))>>, FALSE, <<>>)

CorPrimTypes == <<CorListOfChoice>> \o SelectSeq(ConPrimTypes, LAMBDA t : t.k # "REF") \o <<TNull, TOid, TReal>> \o EnumTypes
CorCarriers == SelectSeq(ConCarriers, LAMBDA t : t.k # "REF")
               \o <<TBool, TNull, TOid, TReal, TIntN, EnumTypes[2], EnumTypes[6], BitsTypes[1], OctsTypes[1], StrTypes[1]>>

CorInit ==
  /\ gDepth = 0 /\ gStage = "type" /\ gVi = 0 /\ gCi = 0
  /\ \E td \in TagDefs : \E j \in 1..Len(CorPrimTypes) :
       /\ gT = CorPrimTypes[j]
       /\ gEnv = ConEnvFor(td, CorPrimTypes[j])

Grow == /\ gStage = "type"
        /\ (ConWrapFor(CorCarriers) \/ NameAndRefer \/ CloseRecursion)
        /\ UNCHANGED <<gStage, gVi, gCi>>

PickValue ==
  /\ Stages /\ gStage = "type"
  /\ \E vi \in 1..Len(GoodBase) : gVi' = vi
  /\ gStage' = "value"
  /\ UNCHANGED <<gEnv, gT, gDepth, gCi>>

CorruptAt ==
  /\ Stages /\ gStage = "value"
  /\ \E ci \in 1..Len(Corruptions(ConEnv, gT, GoodBase[gVi])) : gCi' = ci
  /\ gStage' = "corrupt"
  /\ UNCHANGED <<gEnv, gT, gDepth, gVi>>

CorNext == Grow \/ PickValue \/ CorruptAt
CorSpec == CorInit /\ [][CorNext]_cvars

\* (M) in every corrupt state the corruption is one the property quantifies over, its
\* expected path leads to the corrupted component, and the deviation path differs from
\* the expected one only when the position crosses a recursive reference
IdNames == [x \in DOMAIN ConEnv.types |-> x]
CrossesRecursion(e, top, pos) == DevPath(e, top, pos, [x \in DOMAIN e.types |-> x]) # NamePath(pos)

CorruptStateOk ==
  gStage = "corrupt" =>
    LET v == GoodBase[gVi]
        c == Corruptions(ConEnv, gT, v)[gCi]
        x == Expected(ConEnv, gT, v, c)
    IN /\ Applicable(ConEnv, gT, v, c)
       /\ Admits(ConEnv, gT, v)
       /\ x.path = NamePath(c.pos)
       /\ Len(x.path) <= Len(c.pos)
       /\ (~CrossesRecursion(ConEnv, "Top", c.pos)) => DevPath(ConEnv, "Top", c.pos, IdNames) = x.path

------------------------------------------------------------------------------
(* emission (binding A): one behaviour per type state                       *)

MaxCor == 400

CorCase ==
  LET base == GoodBase
      all == Concat([vi \in 1..Len(base) |->
                LET cs == Corruptions(ConEnv, gT, base[vi])
                IN [h \in 1..Len(cs) |-> [c |-> cs[h], from |-> vi, key |-> CorKey(cs[h])]]])
      uniq == FirstPerKey(all)
      cors == SubSeq(uniq, 1, Min2(Len(uniq), MaxCor))
  IN [env |-> ConEnv, top |-> "Top", depth |-> gDepth, vals |-> base,
      cors |-> [h \in 1..Len(cors) |->
                  LET c == cors[h].c
                      x == Expected(ConEnv, gT, base[cors[h].from], c)
                  IN [vi |-> cors[h].from, kind |-> c.kind, pos |-> c.pos, tau |-> c.tau, nes |-> c.nes,
                      member |-> c.member, num |-> c.num, v2 |-> c.v2, nb |-> c.nb,
                      exp |-> [cls |-> x.cls, path |-> x.path]]]]

CorEmit ==
  gStage = "type" =>
    LET c == CorCase
    IN /\ \A h \in 1..Len(c.cors) :
            Applicable(c.env, gT, c.vals[c.cors[h].vi], c.cors[h])
            \/ Assert(FALSE, <<"generated corruption is not applicable", c.cors[h]>>)
       /\ ConWrite(c)

=============================================================================
