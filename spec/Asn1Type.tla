------------------------------ MODULE Asn1Type ------------------------------
(***************************************************************************)
(* Abstract syntax of the supported ASN.1 notation (X.680) and tagging.    *)
(*                                                                         *)
(* Environment  env = [tagdef  : "E" | "I" | "A",                           *)
(*                     extimp  : BOOLEAN,      \* EXTENSIBILITY IMPLIED      *)
(*                     types   : [name -> T]]                               *)
(*                                                                         *)
(* Type descriptor T (a record; every variant has k and tags):             *)
(*   tags  : Seq([cls : "U"|"A"|"C"|"P", num : Nat, mode : "I"|"E"|"D"])    *)
(*           notation tags written on this type, outermost (leftmost) first *)
(*   k = "BOOL" | "NULL" | "OID" | "REAL"                                   *)
(*   k = "INT"   con : IntCon, nn : Seq([n, v : BigInt])   (named numbers)  *)
(*   k = "ENUM"  root, adds : Seq([n : STRING, v : Int]), ext : BOOLEAN     *)
(*   k = "BITS"  sz : SizeCon, nb : Seq([n : STRING, b : Nat]) (named bits) *)
(*   k = "OCTS"  sz : SizeCon                                               *)
(*   k = "STR"   st : string type, sz : SizeCon, al : Alphabet              *)
(*   k = "SEQ" | "SET"  root : Seq(Member), ext : BOOLEAN, adds : Seq(Add)  *)
(*   k = "CHOICE"       root : Seq(Alt),    ext : BOOLEAN, adds : Seq(Alt)  *)
(*   k = "SEQOF" | "SETOF"  e : T, sz : SizeCon                             *)
(*   k = "REF"   name : STRING                                              *)
(* IntCon   = [f : "N"] | [f : "R", lbinf, ubinf : BOOLEAN, lb, ub : BigInt,*)
(*             ext : BOOLEAN]            (lbinf: MIN, ubinf: MAX)           *)
(* SizeCon  = [f : "N"] | [f : "R", lb, ub : Nat, ubinf : BOOLEAN, ext]     *)
(* Alphabet = [has : BOOLEAN, set : Seq(Nat)]  sorted code points (FROM)    *)
(* Member   = [n : STRING, t : T, q : "M" | "O" | "D", d : value]           *)
(* Add      = [g : FALSE, m : Member] | [g : TRUE, ms : Seq(Member)]        *)
(* Alt      = [n : STRING, t : T]                                           *)
(***************************************************************************)
EXTENDS Bits

NoTags == <<>>

Resolve1(env, T) == IF T.k = "REF" THEN env.types[T.name] ELSE T

\* base type with all references chased (tags are NOT accumulated)
RECURSIVE Base(_, _)
Base(env, T) == IF T.k = "REF" THEN Base(env, env.types[T.name]) ELSE T

\* all members of a SEQUENCE/SET in textual order, addition groups flattened
AddMembers(adds) ==
  Concat([i \in 1..Len(adds) |-> IF adds[i].g THEN adds[i].ms ELSE <<adds[i].m>>])

AllMembers(T) == T.root \o AddMembers(T.adds)
AllAlts(T) == T.root \o T.adds

IsExt(env, T) == T.ext \/ (env.extimp /\ T.k \in {"SEQ", "SET", "CHOICE", "ENUM"})

------------------------------------------------------------------------------
(* tags (X.680 clause 8, 31; X.680 25.7-25.9 / 29.2-29.5 automatic tagging) *)

UniversalNum(T) ==
  CASE T.k = "BOOL" -> 1 [] T.k = "INT" -> 2 [] T.k = "BITS" -> 3 [] T.k = "OCTS" -> 4
    [] T.k = "NULL" -> 5 [] T.k = "OID" -> 6 [] T.k = "REAL" -> 9 [] T.k = "ENUM" -> 10
    [] T.k \in {"SEQ", "SEQOF"} -> 16 [] T.k \in {"SET", "SETOF"} -> 17
    [] T.k = "STR" ->
         (CASE T.st = "UTF8" -> 12 [] T.st = "Numeric" -> 18 [] T.st = "Printable" -> 19
            [] T.st = "Teletex" -> 20 [] T.st = "Videotex" -> 21 [] T.st = "IA5" -> 22
            [] T.st = "Graphic" -> 25 [] T.st = "Visible" -> 26 [] T.st = "General" -> 27
            [] T.st = "Universal" -> 28 [] T.st = "BMP" -> 30
            [] T.st = "ObjectDescriptor" -> 7)
    [] T.k = "TIME" -> (CASE T.tt = "UTCTime" -> 23 [] T.tt = "GeneralizedTime" -> 24
                          [] T.tt = "DATE" -> 31 [] T.tt = "TIME-OF-DAY" -> 32
                          [] T.tt = "DATE-TIME" -> 33)

\* an untagged CHOICE, possibly behind untagged references (X.680 31.2.7)
RECURSIVE IsUntaggedChoice(_, _)
IsUntaggedChoice(env, T) ==
  /\ T.tags = <<>>
  /\ \/ T.k = "CHOICE"
     \/ T.k = "REF" /\ IsUntaggedChoice(env, env.types[T.name])

\* does automatic tagging apply to this SEQUENCE / SET / CHOICE definition?
AutoTagged(env, T) ==
  /\ env.tagdef = "A"
  /\ LET ms == IF T.k = "CHOICE" THEN AllAlts(T) ELSE AllMembers(T)
     IN \A i \in 1..Len(ms) : ms[i].t.tags = <<>>

\* notation tags of the i-th component (in AllMembers / AllAlts order) after
\* automatic tagging
ComponentTags(env, T, i) ==
  LET ms == IF T.k = "CHOICE" THEN AllAlts(T) ELSE AllMembers(T)
  IN IF AutoTagged(env, T)
     THEN << [cls |-> "C", num |-> i - 1, mode |-> "I"] >>
     ELSE ms[i].t.tags

\* the component type with its effective notation tags
ComponentType(env, T, i) ==
  LET ms == IF T.k = "CHOICE" THEN AllAlts(T) ELSE AllMembers(T)
  IN [ms[i].t EXCEPT !.tags = ComponentTags(env, T, i)]

\* Is the j-th notation tag of T explicit?  D = module default; IMPLICIT on an
\* untagged CHOICE is turned into EXPLICIT.
\* Deviation DevTagOnTaggedChoiceRefExplicit (codecs/compiler.py pre_process_tags_type):
\* a default-mode tag on a reference is made EXPLICIT whenever the reference
\* resolves to a CHOICE, even when the referenced type is itself tagged.
TagIsExplicit(env, T, j, S) ==
  LET tg == T.tags[j]
      inner == [T EXCEPT !.tags = SubSeq(T.tags, j + 1, Len(T.tags))]
  IN \/ tg.mode = "E"
     \/ tg.mode = "D" /\ env.tagdef = "E"
     \/ IsUntaggedChoice(env, inner)
     \/ /\ "DevTagOnTaggedChoiceRefExplicit" \in S
        /\ tg.mode = "D" /\ inner.tags = <<>> /\ Base(env, inner).k = "CHOICE"

ClassRank(c) == CASE c = "U" -> 0 [] c = "A" -> 1 [] c = "C" -> 2 [] c = "P" -> 3

TagCmp(a, b) ==   \* canonical order X.680 8.6
  IF ClassRank(a.cls) # ClassRank(b.cls)
  THEN (IF ClassRank(a.cls) < ClassRank(b.cls) THEN -1 ELSE 1)
  ELSE IF a.num < b.num THEN -1 ELSE IF a.num > b.num THEN 1 ELSE 0

\* The outermost tags a value of T can start with: one tag, or for an
\* untagged CHOICE the union over its alternatives.  Result: set of [cls,num].
RECURSIVE OuterTags(_, _)
OuterTags(env, T) ==
  IF T.tags # <<>> THEN {[cls |-> T.tags[1].cls, num |-> T.tags[1].num]}
  ELSE IF T.k = "REF" THEN OuterTags(env, env.types[T.name])
  ELSE IF T.k = "CHOICE"
       THEN UNION {OuterTags(env, ComponentType(env, T, i)) : i \in 1..Len(AllAlts(T))}
  ELSE {[cls |-> "U", num |-> UniversalNum(T)]}

\* X.680 25.6/27.3/29.3: distinct tags where the decoder must tell components apart
TagsLegal(env, T) ==
  CASE T.k = "SEQ" ->
         LET ms == AllMembers(T)
             optional(i) == ms[i].q # "M" \/ i > Len(T.root)
         IN \A i, j \in 1..Len(ms) :
              (i < j /\ \A h \in i..(j - 1) : optional(h)) =>
                 OuterTags(env, ComponentType(env, T, i)) \cap OuterTags(env, ComponentType(env, T, j)) = {}
    [] T.k \in {"SET", "CHOICE"} ->
         LET n == IF T.k = "SET" THEN Len(AllMembers(T)) ELSE Len(AllAlts(T))
         IN \A i, j \in 1..n :
              i < j => OuterTags(env, ComponentType(env, T, i)) \cap OuterTags(env, ComponentType(env, T, j)) = {}
    [] OTHER -> TRUE

\* smallest outer tag (canonical order of SET components / CHOICE alternatives)
MinTag(S) == CHOOSE t \in S : \A u \in S : TagCmp(t, u) <= 0

=============================================================================
