---------------------------- MODULE Trace_History ----------------------------
(***************************************************************************)
(* Binding B for C13.  harness/drive_history.py replays compile histories  *)
(* on one real dictionary and records, per step, the abstraction of the    *)
(* dictionary afterwards (content-addressed: side file <trace>.snaps), and *)
(* per Compile the behaviour map of the resulting codec object; the side   *)
(* file <trace>.mods carries, per module, the behaviour maps of fresh      *)
(* compile_string calls.                                                   *)
(*                                                                         *)
(* One action consumes one line and writes exactly one report.  Checks:    *)
(*                                                                         *)
(*  MECH  every observed change of the dictionary (and whether the call    *)
(*        raised) is what the mechanism model CompilePasses predicts from  *)
(*        the dictionary observed before the step, for some subset of the  *)
(*        deviations that can matter at this step; no aliasing.  A rewrite *)
(*        the model does not know is rejected.                             *)
(*  BEH   the behaviour map after each Compile equals the fresh one.  If   *)
(*        not: `dev` with the smallest set C of history deviations such    *)
(*        that the model, replaying the history from the fresh parse with  *)
(*        only C (and the mechanism deviations) switched on, predicts a    *)
(*        different compiled form for every type observed to differ;       *)
(*        `reject` when no such set exists.                                *)
(*  LATE  a codec object behaves the same at the end of the history as     *)
(*        right after its compile.                                         *)
(*                                                                         *)
(* A rejected line never stops the run.                                    *)
(***************************************************************************)
EXTENDS CompilePasses, Json, IOUtils, FiniteSets

Tr == ndJsonDeserialize(IOEnv.TRACE_FILE)
ModRecs == ndJsonDeserialize(IOEnv.TRACE_FILE \o ".mods")
SnapRecs == ndJsonDeserialize(IOEnv.TRACE_FILE \o ".snaps")

ModOf(name) == ModRecs[SeqIndex(ModRecs, LAMBDA r : r.mod = name)]
SnapOf(h) == SnapRecs[SeqIndex(SnapRecs, LAMBDA r : r.h = h)].d

\* gFresh: what the model compiles from the fresh parses (FreshTab), computed by the first step and
\* carried along (TLC does not cache a definition of this size)
VARIABLES i, gFresh
vars == <<i, gFresh>>

V(vi, s, check, verdict, detail) ==
  [vi |-> vi, codec |-> s.codec, ne |-> s.ne, check |-> check, verdict |-> verdict, detail |-> detail]
NoStep == [codec |-> "", ne |-> FALSE]

------------------------------------------------------------------------------
(* the model applied to one step                                            *)

\* -> [m, err]
ApplyStep(M, s, order, S) ==
  CASE s.a = "C" -> LET c == CompileDict(M, s.ne, S) IN [m |-> c.m, err |-> c.err]
    [] s.a = "P" -> [m |-> PformatEval(M, order, S), err |-> ""]
    [] OTHER -> [m |-> DeepCopy(M), err |-> ""]

AnyParam(M) == \E a \in 1..Len(M) : \E t \in 1..Len(M[a].types) : M[a].types[t].node.hasParams

\* deviations whose clause can be reached at this step
Hit(M, s) ==
  CASE s.a = "C" -> {"DevCompileInPlace"}
                    \cup (IF s.ne THEN {"DevEnumDefaultInPlace", "DevEnumMarkerUnpack"} ELSE {})
                    \cup (IF Len(M) > 1 THEN {"DevModuleMajorPasses"} ELSE {})
                    \cup (IF AnyParam(M) THEN {"DevDefaultsBeforeParameterization"} ELSE {})
    [] s.a = "P" -> {"DevPformatSortsDicts"}
    [] OTHER -> {}

\* the error of the pre-processing passes (what the mechanism model predicts); an exception raised later, by a
\* codec's own compiler, leaves the passes complete (phase is recorded from the traceback by the driver)
ObsErr(s) == IF s.st = "ok" THEN ""
             ELSE IF s.st = "exc" THEN (IF "phase" \in DOMAIN s /\ s.phase = "codec" THEN "" ELSE s.cls)
             ELSE "timeout"

------------------------------------------------------------------------------
(* where two dictionaries differ (diagnostics only)                         *)

RECURSIVE DiffNode(_, _)
DiffNode(a, b) ==
  CASE a.type # b.type -> "/type " \o a.type \o " vs " \o b.type
    [] a.name # b.name -> "/name"
    [] a.tag # b.tag -> "/tag " \o ToString(a.tag) \o " vs " \o ToString(b.tag)
    [] a.opt # b.opt -> "/optional"
    [] a.def # b.def -> "/default " \o ToString(a.def) \o " vs " \o ToString(b.def)
    [] a.hasItems # b.hasItems -> "/members present"
    [] Len(a.items) # Len(b.items) -> "/members# " \o ToString(Len(a.items)) \o " vs " \o ToString(Len(b.items))
    [] a.items # b.items ->
         LET j == CHOOSE x \in 1..Len(a.items) : a.items[x] # b.items[x] /\ \A y \in 1..(x - 1) : a.items[y] = b.items[y]
         IN "/members[" \o ToString(j) \o "]" \o
            (IF a.items[j].it # b.items[j].it \/ Len(a.items[j].ns) # Len(b.items[j].ns) \/ a.items[j].ref # b.items[j].ref
             THEN " item kind " \o a.items[j].it \o " vs " \o b.items[j].it
             ELSE LET k == CHOOSE x \in 1..Len(a.items[j].ns) : a.items[j].ns[x] # b.items[j].ns[x]
                  IN "(" \o a.items[j].ns[k].name \o ")" \o DiffNode(a.items[j].ns[k], b.items[j].ns[k]))
    [] Len(a.elem) # Len(b.elem) -> "/element present"
    [] a.elem # b.elem -> "/element" \o DiffNode(a.elem[1], b.elem[1])
    [] a.vals # b.vals -> "/values"
    [] a.nbits # b.nbits -> "/named-bits"
    [] a.hasParams # b.hasParams \/ a.params # b.params -> "/parameters"
    [] a.hasActuals # b.hasActuals \/ a.actuals # b.actuals -> "/actual-parameters"
    [] a.modname # b.modname -> "/module-name"
    [] a.rest # b.rest -> "/other keys"
    [] OTHER -> ""

\* model dictionary A vs observed dictionary B
DiffMods(A, B) ==
  IF Len(A) # Len(B) THEN "number of modules"
  ELSE IF A = B THEN ""
  ELSE LET a == CHOOSE x \in 1..Len(A) : A[x] # B[x] /\ \A y \in 1..(x - 1) : A[y] = B[y]
       IN IF A[a].name # B[a].name THEN "module order: model " \o A[a].name \o ", observed " \o B[a].name
          ELSE IF [A[a] EXCEPT !.types = <<>>] # [B[a] EXCEPT !.types = <<>>] THEN A[a].name \o ": module attributes"
          ELSE IF Len(A[a].types) # Len(B[a].types) THEN A[a].name \o ": number of types"
          ELSE LET t == CHOOSE x \in 1..Len(A[a].types) : A[a].types[x] # B[a].types[x] /\ \A y \in 1..(x - 1) : A[a].types[y] = B[a].types[y]
               IN IF A[a].types[t].name # B[a].types[t].name
                  THEN A[a].name \o ": type order: model " \o A[a].types[t].name \o ", observed " \o B[a].types[t].name
                  ELSE A[a].name \o "." \o A[a].types[t].name \o DiffNode(A[a].types[t].node, B[a].types[t].node)

------------------------------------------------------------------------------
(* judging one history line                                                 *)

\* the observed dictionary before step k (= after step k - 1)
Before(L, d0, k) == IF k = 1 THEN d0.mods ELSE SnapOf(L.steps[k - 1].after).mods

\* expensive predicates are evaluated once each: none, then all reachable deviations, then the rest
MechVerdict(L, d0, k) ==
  LET s == L.steps[k]
      B == Before(L, d0, k)
      A == Before(L, d0, k + 1)
      H == Hit(B, s)
      explains(S) == LET r == ApplyStep(B, s, d0.order, S) IN r.m = A /\ r.err = ObsErr(s)
      e0 == explains({})
      eH == H # {} /\ explains(H)
      rest == SetToSortSeq(SUBSET H \ {{}, H}, LAMBDA x, y : Cardinality(x) < Cardinality(y))
      eRest == Force([q \in 1..Len(rest) |-> explains(rest[q])])
  IN IF s.alias # 0 THEN V(k, s, "MECH", "reject", "aliasing: " \o ToString(s.alias) \o " shared sub-dictionaries the model does not know")
     ELSE IF e0 THEN V(k, s, "MECH", "ok", "{}")
     ELSE IF eH THEN V(k, s, "MECH", "ok", ToString(H))
     ELSE IF \E q \in 1..Len(rest) : eRest[q] THEN V(k, s, "MECH", "ok", ToString(rest[CHOOSE q \in 1..Len(rest) : eRest[q]]))
     ELSE LET r == ApplyStep(B, s, d0.order, H)
          IN V(k, s, "MECH", "reject",
               IF r.err # ObsErr(s) THEN "in-place rewrite the model does not know: model raises '" \o r.err \o "', observed '" \o ObsErr(s) \o "'"
               ELSE "in-place rewrite the model does not know: " \o DiffMods(r.m, A))

FreshEntry(mrec, s) == mrec.fresh[SeqIndex(mrec.fresh, LAMBDA f : f.codec = s.codec /\ f.ne = s.ne)]

\* probe types whose behaviour digests differ (as a sequence of names)
DiffTypes(b1, b2) ==
  IF Len(b1) # Len(b2) THEN <<"*">>
  ELSE LET ds == SelectSeq(Idx(Len(b1)), LAMBDA q : b1[q] # b2[q]) IN [q \in 1..Len(ds) |-> b1[ds[q]].t]

\* dictionary before step k when the model replays the history from the fresh parse
ModelBefore(d0, hist, k, S) ==
  FoldLeft(LAMBDA M, j : ApplyStep(M, hist[j], d0.order, S).m, d0.mods, Idx(k - 1))

\* history deviations that can have been reached before step k
HistCands(L, d0, k) ==
  (IF \E j \in 1..k : L.hist[j].a = "C" /\ L.hist[j].ne THEN {"DevEnumDefaultInPlace"} ELSE {})
  \cup (IF \E j \in 1..(k - 1) : L.hist[j].a = "P" THEN {"DevPformatSortsDicts"} ELSE {})
  \cup (IF AnyParam(d0.mods) /\ \E j \in 1..(k - 1) : L.hist[j].a = "C" THEN {"DevDefaultsBeforeParameterization"} ELSE {})

Mech == {MechanismDevs[q] : q \in 1..Len(MechanismDevs)}

\* the sets of history deviations, smallest first
HistSubsets ==
  << {}, {HistoryDevs[1]}, {HistoryDevs[2]}, {HistoryDevs[3]},
     {HistoryDevs[1], HistoryDevs[2]}, {HistoryDevs[1], HistoryDevs[3]}, {HistoryDevs[2], HistoryDevs[3]},
     {HistoryDevs[1], HistoryDevs[2], HistoryDevs[3]} >>

\* what the model compiles from the fresh parse: per module, numeric_enums, deviation set
FreshTab ==
  Force([m \in 1..Len(ModRecs) |->
    Force([b \in 1..2 |->
      Force([c \in 1..Len(HistSubsets) |-> Compile(SnapOf(ModRecs[m].d0h).mods, b = 2, Mech \cup HistSubsets[c])])])])

BehVerdict(L, mrec, k, ft) ==
  LET s == L.steps[k]
      d0 == mrec.d0
      f == FreshEntry(mrec, s)
      compileDiffers == s.st # f.st \/ s.msg # f.msg
      dts == IF compileDiffers THEN <<>> ELSE DiffTypes(s.beh, f.beh)
  IN IF ~compileDiffers /\ dts = <<>> THEN V(k, s, "BEH", "ok", "")
     ELSE LET what == IF compileDiffers THEN "compile_dict: history '" \o s.st \o " " \o s.msg \o "', fresh '" \o f.st \o " " \o f.msg \o "'"
                      ELSE "types " \o ToString(dts)
              mi == SeqIndex(ModRecs, LAMBDA r : r.mod = L.mod)
              hc == HistCands(L, d0, k)
              predicts(c) ==
                LET S == Mech \cup HistSubsets[c]
                    ch == Compile(ModelBefore(d0, L.hist, k, S), s.ne, S)
                    cf == ft[mi][IF s.ne THEN 2 ELSE 1][c]
                IN IF compileDiffers THEN ch.err # cf.err \/ View(ch) # View(cf)     \* (a codec compiler that reads another dictionary may also fail / succeed differently)
                   ELSE /\ ch.err = "" /\ cf.err = ""
                        /\ LET dns == DiffNamesAll(ch, cf)
                           IN \A q \in 1..Len(dts) : dts[q] # "*" /\ TypeDiffersGiven(ch, cf, dns, dts[q])
              ofSize(n) == SelectSeq(Idx(Len(HistSubsets)), LAMBDA c : Cardinality(HistSubsets[c]) = n /\ HistSubsets[c] \subseteq hc)
              c1 == ofSize(1)
              c2 == ofSize(2)
              c3 == ofSize(3)
              p1 == Force([q \in 1..Len(c1) |-> predicts(c1[q])])
              p2 == Force([q \in 1..Len(c2) |-> predicts(c2[q])])
              p3 == Force([q \in 1..Len(c3) |-> predicts(c3[q])])
              pick(cs, ps) == HistSubsets[cs[CHOOSE q \in 1..Len(cs) : ps[q] /\ \A r \in 1..(q - 1) : ~ps[r]]]
          IN IF \E q \in 1..Len(c1) : p1[q] THEN V(k, s, "BEH", "dev", ToString(pick(c1, p1)))
             ELSE IF \E q \in 1..Len(c2) : p2[q] THEN V(k, s, "BEH", "dev", ToString(pick(c2, p2)))
             ELSE IF \E q \in 1..Len(c3) : p3[q] THEN V(k, s, "BEH", "dev", ToString(pick(c3, p3)))
             ELSE V(k, s, "BEH", "reject", "behaves unlike a fresh compile and the mechanism model does not predict it: " \o what)

LateVerdict(L, k) ==
  LET s == L.steps[k]
  IN IF s.late = s.beh THEN V(k, s, "LATE", "ok", "")
     ELSE V(k, s, "LATE", "reject", "codec object changed behaviour after later steps: " \o ToString(DiffTypes(s.late, s.beh)))

StepVerdicts(L, mrec, k, ft) ==
  LET s == L.steps[k]
  IN <<MechVerdict(L, mrec.d0, k)>>
     \o (IF s.a = "C" THEN <<BehVerdict(L, mrec, k, ft)>> ELSE <<>>)
     \o (IF s.a = "C" /\ s.st = "ok" THEN <<LateVerdict(L, k)>> ELSE <<>>)

HistVerdicts(L, ft) ==
  LET m == ModOf(L.mod)
      mrec == [d0 |-> SnapOf(m.d0h), d0h |-> m.d0h, fresh |-> m.fresh]
  IN IF L.d0h # mrec.d0h THEN <<V(0, NoStep, "PARSE", "reject", "two parses of the same text differ")>>
     ELSE IF mrec.d0.alias # 0 THEN <<V(0, NoStep, "PARSE", "reject", "parser output shares sub-dictionaries")>>
     ELSE <<V(0, NoStep, "PARSE", "ok", "")>> \o Concat([k \in 1..Len(L.steps) |-> StepVerdicts(L, mrec, k, ft)])

LineReport(L, ft) ==
  LET all == CASE L.ev = "hist" -> HistVerdicts(L, ft)
               [] OTHER -> <<V(0, NoStep, "ANY", "machinery", L.why)>>
  IN [cid |-> L.cid, n |-> Len(all),
      ok |-> Len(SelectSeq(all, LAMBDA r : r.verdict = "ok")),
      other |-> SelectSeq(all, LAMBDA r : r.verdict # "ok")]

Emit(r) ==
  Serialize(ToJson(r) \o "\n", IOEnv.VERDICT_FILE,
            [format |-> "TXT", charset |-> "UTF-8", openOptions |-> <<"WRITE", "CREATE", "APPEND">>]).exitValue = 0

Init == i = 1 /\ gFresh = <<>>

Next == /\ i <= Len(Tr)
        /\ LET ft == IF gFresh = <<>> THEN FreshTab ELSE gFresh
           IN Emit(LineReport(Tr[i], ft)) /\ gFresh' = ft
        /\ i' = i + 1

Spec == Init /\ [][Next]_vars

TraceAccepted == TLCGet("stats").diameter - 1 = Len(Tr)

=============================================================================
