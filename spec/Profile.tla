------------------------------- MODULE Profile ------------------------------
(***************************************************************************)
(* Named deviations of the implementation from the standards (DESIGN 2.3). *)
(* A deviation is an alternative definition of one clause, switched on by  *)
(* its name being in the set S passed to the Enc operators.  The standard  *)
(* profile is S = {}.  Which deviations are *accepted* is decided outside  *)
(* the specification (known_findings.json); the trace specification only   *)
(* reports which deviation set explains an observation.                    *)
(***************************************************************************)
EXTENDS X696

DerDevs == <<"DevDerSetNotSorted", "DevDerSetOfNotSorted", "DevDerNamedBitsNotTrimmed", "DevTagOnTaggedChoiceRefExplicit", "DevDefaultNullEncoded">>

PerDevs == <<"DevPerSemiConstrainedAsUnconstrained", "DevPerChoiceIndexTextualOrder", "DevPerStringAlignIfMaxGt1",
             "DevPerUniversalStringSizeIgnored", "DevPerEmptyOutermost", "DevDefaultNullEncoded", "DevPerNormallySmallLengthNoAlign">>

OerDevs == <<"DevOerExtensibleIntConstraintVisible", "DevOerGroupsFlattened", "DevOerFixedSizeByCharCount",
             "DevOerSetTextualOrder", "DevDefaultNullEncoded">>

\* candidate deviation sets, smallest first: singletons, pairs, everything
DevCandidates(devs) ==
  LET n == Len(devs)
      singles == [j \in 1..n |-> {devs[j]}]
      pairs == Concat([a \in 1..n |-> [b \in 1..(n - a) |-> {devs[a], devs[a + b]}]])
      allOf == IF n > 2 THEN <<{devs[j] : j \in 1..n}>> ELSE <<>>
  IN singles \o pairs \o allOf

------------------------------------------------------------------------------
(* input classes of known round-trip findings: predicates over (T, v)       *)

RECURSIVE Leaves(_, _, _)
\* all leaves <<base type, value>> of v : T
Leaves(env, T, v) ==
  CASE T.k = "REF" -> Leaves(env, env.types[T.name], v)
    [] T.k \in {"SEQ", "SET"} ->
         Concat([j \in 1..Len(AllMembers(T)) |->
            LET m == AllMembers(T)[j] IN IF v[m.n].p THEN Leaves(env, m.t, v[m.n].v) ELSE <<>>])
    [] T.k = "CHOICE" ->
         LET alts == AllAlts(T) IN Leaves(env, alts[MemberIndex(alts, v.a)].t, v.v)
    [] T.k \in {"SEQOF", "SETOF"} -> Concat([j \in 1..Len(v) |-> Leaves(env, T.e, v[j])])
    [] OTHER -> << <<T, v>> >>

AnyLeaf(env, T, v, P(_, _)) ==
  LET ls == Leaves(env, T, v) IN \E j \in 1..Len(ls) : P(ls[j][1], ls[j][2])

RtClasses == <<"OidArc2Ge40", "RealMinusZero", "NamedBitsTrimmedBelowSize", "AbsentOptionalExtensibleChoice",
              "PerSizeExtensionOutsideRoot", "GroupOnlyNullPresent">>

RECURSIVE AnyNode(_, _, _, _)
\* does P hold at some SEQUENCE/SET node <<type, value>> inside v : T ?
SeqNodes(env, T, v) == AnyNode(env, T, v, 0)
AnyNode(env, T, v, dummy) ==
  CASE T.k = "REF" -> AnyNode(env, env.types[T.name], v, dummy)
    [] T.k \in {"SEQ", "SET"} ->
         << <<T, v>> >> \o Concat([j \in 1..Len(AllMembers(T)) |->
            LET m == AllMembers(T)[j] IN IF v[m.n].p THEN AnyNode(env, m.t, v[m.n].v, dummy) ELSE <<>>])
    [] T.k = "CHOICE" ->
         LET alts == AllAlts(T) IN AnyNode(env, alts[MemberIndex(alts, v.a)].t, v.v, dummy)
    [] T.k \in {"SEQOF", "SETOF"} -> Concat([j \in 1..Len(v) |-> AnyNode(env, T.e, v[j], dummy)])
    [] OTHER -> <<>>

RtClassHolds(name, env, T, v, codec) ==
  CASE name = "OidArc2Ge40" -> AnyLeaf(env, T, v, LAMBDA t, x : t.k = "OID" /\ x[1] = 2 /\ x[2] >= 40)
    [] name = "RealMinusZero" -> AnyLeaf(env, T, v, LAMBDA t, x : t.k = "REAL" /\ x.c = "NZ")
    [] name = "NamedBitsTrimmedBelowSize" ->
         /\ codec = "der"
         /\ AnyLeaf(env, T, v, LAMBDA t, x : t.k = "BITS" /\ t.nb # <<>> /\ t.sz.f = "R" /\ TrimBits(x).n < t.sz.lb)
    [] name = "PerSizeExtensionOutsideRoot" ->
         /\ codec \in {"per", "uper"}
         /\ AnyLeaf(env, T, v, LAMBDA t, x :
               /\ t.k \in {"STR", "BITS", "OCTS"}
               /\ t.sz.f = "R" /\ t.sz.ext
               /\ LET n == IF t.k = "BITS" THEN x.n ELSE Len(x) IN ~SizeInRoot(t.sz, n))
    [] name = "GroupOnlyNullPresent" ->
         /\ codec \in {"per", "uper", "oer"}
         /\ LET ns == SeqNodes(env, T, v) IN
              \E j \in 1..Len(ns) :
                 LET Sq == ns[j][1]  x == ns[j][2] IN
                 \E a \in 1..Len(Sq.adds) :
                    /\ Sq.adds[a].g
                    /\ \E h \in 1..Len(Sq.adds[a].ms) : x[Sq.adds[a].ms[h].n].p
                    /\ \A h \in 1..Len(Sq.adds[a].ms) :
                          x[Sq.adds[a].ms[h].n].p => Base(env, Sq.adds[a].ms[h].t).k = "NULL"
    [] name = "AbsentOptionalExtensibleChoice" ->
         /\ codec \in {"ber", "der"}
         /\ LET ns == SeqNodes(env, T, v) IN
              \E j \in 1..Len(ns) :
                 LET S == ns[j][1]  x == ns[j][2]  ms == AllMembers(S) IN
                 \E h \in 1..Len(ms) :
                    /\ ~x[ms[h].n].p
                    /\ IsUntaggedChoice(env, ComponentType(env, S, h))
                    /\ Base(env, ms[h].t).ext

RtApplicable(env, T, v, codec) ==
  {RtClasses[j] : j \in {j \in 1..Len(RtClasses) : RtClassHolds(RtClasses[j], env, T, v, codec)}}

=============================================================================
