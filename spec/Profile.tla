------------------------------- MODULE Profile ------------------------------
(***************************************************************************)
(* Named deviations of the implementation from the standards (DESIGN 2.3). *)
(* A deviation is an alternative definition of one clause, switched on by  *)
(* its name being in the set S passed to the Enc operators.  The standard  *)
(* profile is S = {}.  Which deviations are *accepted* is decided outside  *)
(* the specification (known_findings.json); the trace specification only   *)
(* reports which deviation set explains an observation.                    *)
(***************************************************************************)
EXTENDS X696

DerDevs == <<"DevDerSetNotSorted", "DevDerSetOfNotSorted", "DevDerNamedBitsNotTrimmed", "DevTagOnTaggedChoiceRefExplicit", "DevDefaultNullEncoded">>

PerDevs == <<"DevPerSemiConstrainedAsUnconstrained", "DevPerChoiceIndexTextualOrder", "DevPerStringAlignIfMaxGt1",
             "DevPerUniversalStringSizeIgnored", "DevPerEmptyOutermost", "DevDefaultNullEncoded", "DevPerNormallySmallLengthNoAlign",
             "DevPerEnumIndexBitField", "DevPerNormallySmallNumberNoAlign">>

OerDevs == <<"DevOerExtensibleIntConstraintVisible", "DevOerGroupsFlattened", "DevOerFixedSizeByCharCount",
             "DevOerSetTextualOrder", "DevDefaultNullEncoded">>

\* candidate deviation sets, smallest first: singletons, pairs, everything
DevCandidates(devs) ==
  LET n == Len(devs)
      singles == [j \in 1..n |-> {devs[j]}]
      pairs == Concat([a \in 1..n |-> [b \in 1..(n - a) |-> {devs[a], devs[a + b]}]])
      allOf == IF n > 2 THEN <<{devs[j] : j \in 1..n}>> ELSE <<>>
  IN singles \o pairs \o allOf

------------------------------------------------------------------------------
(* input classes of known round-trip findings: predicates over (T, v)       *)

RECURSIVE Leaves(_, _, _)
\* all leaves <<base type, value>> of v : T
Leaves(env, T, v) ==
  CASE T.k = "REF" -> Leaves(env, env.types[T.name], v)
    [] T.k \in {"SEQ", "SET"} ->
         Concat([j \in 1..Len(AllMembers(T)) |->
            LET m == AllMembers(T)[j] IN IF v[m.n].p THEN Leaves(env, m.t, v[m.n].v) ELSE <<>>])
    [] T.k = "CHOICE" ->
         LET alts == AllAlts(T) IN Leaves(env, alts[MemberIndex(alts, v.a)].t, v.v)
    [] T.k \in {"SEQOF", "SETOF"} -> Concat([j \in 1..Len(v) |-> Leaves(env, T.e, v[j])])
    [] OTHER -> << <<T, v>> >>

AnyLeaf(env, T, v, P(_, _)) ==
  LET ls == Leaves(env, T, v) IN \E j \in 1..Len(ls) : P(ls[j][1], ls[j][2])

RtClasses == <<"OidArc2Ge40", "RealMinusZero", "NamedBitsTrimmedBelowSize", "AbsentOptionalExtensibleChoice",
              "PerSizeExtensionOutsideRoot", "GroupOnlyNullPresent", "OerAdditionGroup", "OerFixedSizeWideString",
              "DefaultNullMember", "XerRealText">>

RECURSIVE AnyNode(_, _, _, _)
\* does P hold at some SEQUENCE/SET node <<type, value>> inside v : T ?
SeqNodes(env, T, v) == AnyNode(env, T, v, 0)
AnyNode(env, T, v, dummy) ==
  CASE T.k = "REF" -> AnyNode(env, env.types[T.name], v, dummy)
    [] T.k \in {"SEQ", "SET"} ->
         << <<T, v>> >> \o Concat([j \in 1..Len(AllMembers(T)) |->
            LET m == AllMembers(T)[j] IN IF v[m.n].p THEN AnyNode(env, m.t, v[m.n].v, dummy) ELSE <<>>])
    [] T.k = "CHOICE" ->
         LET alts == AllAlts(T) IN AnyNode(env, alts[MemberIndex(alts, v.a)].t, v.v, dummy)
    [] T.k \in {"SEQOF", "SETOF"} -> Concat([j \in 1..Len(v) |-> AnyNode(env, T.e, v[j], dummy)])
    [] OTHER -> <<>>

\* types whose PER encoding is the empty bit string (the implementation takes a group whose encoding
\* is an all-zero preamble and nothing else for an absent group)
RECURSIVE ZeroWidthF(_, _, _)
ZeroWidthF(env, t, fuel) ==
  CASE t.k = "REF" -> fuel > 0 /\ ZeroWidthF(env, env.types[t.name], fuel - 1)
    [] t.k = "NULL" -> TRUE
    [] t.k = "ENUM" -> ~t.ext /\ ~env.extimp /\ Len(t.root) = 1
    [] t.k = "INT" -> t.con.f = "R" /\ ~t.con.ext /\ ~t.con.lbinf /\ ~t.con.ubinf /\ t.con.lb = t.con.ub
    [] t.k \in {"OCTS", "BITS", "STR"} -> t.sz.f = "R" /\ ~t.sz.ext /\ ~t.sz.ubinf /\ t.sz.ub = 0
    [] t.k \in {"SEQ", "SET"} ->
         /\ ~t.ext /\ ~env.extimp
         /\ \A j \in 1..Len(t.root) : t.root[j].q = "M" /\ ZeroWidthF(env, t.root[j].t, fuel)
    [] OTHER -> FALSE
ZeroWidth(env, t) == ZeroWidthF(env, t, 3)

RtClassHolds(name, env, T, v, codec) ==
  CASE name = "OidArc2Ge40" -> AnyLeaf(env, T, v, LAMBDA t, x : t.k = "OID" /\ x[1] = 2 /\ x[2] >= 40)
    [] name = "RealMinusZero" -> AnyLeaf(env, T, v, LAMBDA t, x : t.k = "REAL" /\ x.c = "NZ")
    [] name = "NamedBitsTrimmedBelowSize" ->
         /\ codec = "der"
         /\ AnyLeaf(env, T, v, LAMBDA t, x : t.k = "BITS" /\ t.nb # <<>> /\ t.sz.f = "R" /\ TrimBits(x).n < t.sz.lb)
    [] name = "PerSizeExtensionOutsideRoot" ->
         /\ codec \in {"per", "uper"}
         /\ AnyLeaf(env, T, v, LAMBDA t, x :
               /\ t.k \in {"STR", "BITS", "OCTS"}
               /\ t.sz.f = "R" /\ t.sz.ext
               /\ LET n == IF t.k = "BITS" THEN x.n ELSE Len(x) IN ~SizeInRoot(t.sz, n))
    [] name = "GroupOnlyNullPresent" ->
         /\ codec \in {"per", "uper", "oer"}
         /\ LET ns == SeqNodes(env, T, v) IN
              \E j \in 1..Len(ns) :
                 LET Sq == ns[j][1]  x == ns[j][2] IN
                 \E a \in 1..Len(Sq.adds) :
                    /\ Sq.adds[a].g
                    /\ \E h \in 1..Len(Sq.adds[a].ms) : x[Sq.adds[a].ms[h].n].p
                    /\ \A h \in 1..Len(Sq.adds[a].ms) :
                          x[Sq.adds[a].ms[h].n].p => ZeroWidth(env, Sq.adds[a].ms[h].t)
    [] name = "OerAdditionGroup" ->
         /\ codec = "oer"
         /\ LET ns == SeqNodes(env, T, v) IN
              \E j \in 1..Len(ns) : \E a \in 1..Len(ns[j][1].adds) : ns[j][1].adds[a].g
    [] name = "OerFixedSizeWideString" ->
         /\ codec = "oer"
         /\ AnyLeaf(env, T, v, LAMBDA t, x : t.k = "STR" /\ OerFixedSize(t.sz) /\ OerCharWidth(t.st) # 1)
    [] name = "DefaultNullMember" ->
         LET ns == SeqNodes(env, T, v) IN
           \E j \in 1..Len(ns) :
              LET ms == AllMembers(ns[j][1]) IN
              \E h \in 1..Len(ms) : ms[h].q = "D" /\ Base(env, ms[h].t).k = "NULL"
    [] name = "XerRealText" ->
         codec = "xer" /\ AnyLeaf(env, T, v, LAMBDA t, x : t.k = "REAL" /\ x.c \in {"F", "NAN", "PINF", "NINF"})
    [] name = "AbsentOptionalExtensibleChoice" ->
         /\ codec \in {"ber", "der"}
         /\ LET ns == SeqNodes(env, T, v) IN
              \E j \in 1..Len(ns) :
                 LET S == ns[j][1]  x == ns[j][2]  ms == AllMembers(S) IN
                 \E h \in 1..Len(ms) :
                    /\ ~x[ms[h].n].p
                    /\ IsUntaggedChoice(env, ComponentType(env, S, h))
                    /\ Base(env, ms[h].t).ext

\* input classes of known version-interoperability findings (C07); filled as they are confirmed
RECURSIVE UnknownInList(_, _, _, _, _)
\* does v : T2 hold an ENUMERATED item / CHOICE alternative unknown to T1 directly as an
\* element of a SEQUENCE OF / SET OF (inList = the enclosing node is a list)?
UnknownInList(e, T1, T2, v, inList) ==
  CASE T1.k = "REF" -> UnknownInList(e, e.types[T1.name], e.types[T2.name], v, inList)
    [] T1.k \in {"SEQ", "SET"} ->
         LET ms1 == AllMembers(T1)  ms2 == AllMembers(T2) IN
         \E j \in 1..Len(ms1) :
            /\ v[ms1[j].n].p
            /\ UnknownInList(e, ms1[j].t, ms2[MemberIndex(ms2, ms1[j].n)].t, v[ms1[j].n].v, FALSE)
    [] T1.k = "CHOICE" ->
         LET a1 == AllAlts(T1)  a2 == AllAlts(T2) IN
         IF HasMember(a1, v.a)
         THEN UnknownInList(e, a1[MemberIndex(a1, v.a)].t, a2[MemberIndex(a2, v.a)].t, v.v, FALSE)
         ELSE inList
    [] T1.k = "ENUM" -> inList /\ ~HasMember(AllAlts(T1), v)
    [] T1.k \in {"SEQOF", "SETOF"} -> \E j \in 1..Len(v) : UnknownInList(e, T1.e, T2.e, v[j], TRUE)
    [] OTHER -> FALSE

ExtClasses == <<"XerUnknownItemInList">>
ExtClassHolds(name, env1, env2, T1, T2, v, codec) ==
  CASE name = "XerUnknownItemInList" -> codec = "xer" /\ UnknownInList(env2, T1, T2, v, FALSE)
ExtApplicable(env1, env2, T1, T2, v, codec) ==
  {ExtClasses[j] : j \in {j \in 1..Len(ExtClasses) : ExtClassHolds(ExtClasses[j], env1, env2, T1, T2, v, codec)}}

\* characters XML 1.0 cannot carry (C02/C07: "characters representable in the target syntax")
XmlLegalChar(ch) == ch \in {9, 10, 13} \/ (ch >= 32 /\ ch <= 55295) \/ (ch >= 57344 /\ ch <= 65533) \/ ch >= 65536
XmlRepresentable(env, T, v) ==
  ~AnyLeaf(env, T, v, LAMBDA t, x : t.k = "STR" /\ \E j \in 1..Len(x) : ~XmlLegalChar(x[j]))

RtApplicable(env, T, v, codec) ==
  {RtClasses[j] : j \in {j \in 1..Len(RtClasses) : RtClassHolds(RtClasses[j], env, T, v, codec)}}

=============================================================================
