----------------------------- MODULE Trace_Codec ----------------------------
(***************************************************************************)
(* Binding B for the wire-format properties: one recorded line per case    *)
(* (a type, its values, and what the real library did for each value and   *)
(* codec).  One action consumes one line and judges every observation in   *)
(* it with the clause operators of X690 / X691 / X696 and with AbsEq /     *)
(* Admits.  A rejected observation does not stop the run: the verdict is   *)
(* written to VERDICT_FILE and the next line is consumed, so the rest of   *)
(* the trace is still examined.  TraceAccepted requires that every line    *)
(* was consumed.                                                           *)
(***************************************************************************)
EXTENDS Profile, TLC, TLCExt, Json, IOUtils

CONSTANT Checks     \* subset of {"RT", "DER", "PER", "OER", "PREFIX"}

Tr == ndJsonDeserialize(IOEnv.TRACE_FILE)

VARIABLE i
vars == <<i>>

Has(r, f) == f \in DOMAIN r

InMro(o, name) == \E j \in 1..Len(o.mro) : o.mro[j] = name

ExcKey(phase, o) ==
  IF o.st = "exc" THEN phase \o "-exc:" \o o.cls \o "@" \o o.site
  ELSE IF o.st = "timeout" THEN phase \o "-timeout@" \o o.site
  ELSE phase \o "-bad:" \o (IF Has(o, "msg") THEN o.msg ELSE "")

V(check, verdict, detail) == [check |-> check, verdict |-> verdict, detail |-> detail]

------------------------------------------------------------------------------
(* C01: round trip                                                          *)

RtVerdict(env, T, v, o) ==
  LET canonical == o.codec \in {"der", "per", "uper", "oer"}
      app == ToString(RtApplicable(env, T, v, o.codec))
  IN
  IF ~Admits(env, T, v) THEN V("RT", "skip", "value not admitted")
  ELSE IF o.enc.st # "ok" THEN V("RT", "reject", ExcKey("enc", o.enc) \o " applicable:" \o app)
  ELSE IF ~Has(o, "dec") THEN V("RT", "skip", "no decode recorded")
  ELSE IF o.dec.st # "ok" THEN V("RT", "reject", ExcKey("dec", o.dec) \o " applicable:" \o app)
  ELSE IF ~AbsEq(env, T, v, o.dec.v) THEN V("RT", "reject", "decoded value differs applicable:" \o app)
  ELSE IF ~Admits(env, T, o.dec.v) THEN V("RT", "reject", "decoded value not admitted applicable:" \o app)
  ELSE IF ~Has(o, "re") THEN V("RT", "skip", "no re-encode recorded")
  ELSE IF o.re.st # "ok" THEN V("RT", "reject", ExcKey("re", o.re) \o " applicable:" \o app)
  ELSE IF canonical /\ o.re.b # o.enc.b THEN V("RT", "reject", "re-encoding differs applicable:" \o app)
  ELSE V("RT", "ok", "")

------------------------------------------------------------------------------
(* C03: DER output is the distinguished encoding                            *)

\* first deviation set (smallest first) under which the model reproduces b
Explaining(enc(_), b, devs) ==
  LET cands == DevCandidates(devs)
      hit == SelectSeq(cands, LAMBDA S : enc(S) = b)
  IN IF hit = <<>> THEN "none" ELSE ToString(hit[1])

DerVerdict(env, T, v, o) ==
  IF o.enc.st # "ok"
  THEN (IF Admits(env, T, v)
        THEN V("DER", "reject", ExcKey("enc", o.enc) \o " applicable:" \o ToString(RtApplicable(env, T, v, o.codec)))
        ELSE V("DER", "skip", "value not admitted and not encoded"))
  ELSE LET b == o.enc.b
           std == DerEnc(env, T, v, {})
           p == ParseTlv(b)
       IN IF b = std
          THEN (IF ~p.ok THEN V("DER", "reject", "model encoding does not parse: " \o p.why)   \* cross-check of the two formulations
                ELSE IF DerNodeViolation(p.t) # "" THEN V("DER", "reject", "IsDer disagrees with DerEnc: " \o DerNodeViolation(p.t))
                ELSE V("DER", "ok", ""))
          ELSE LET ex == Explaining(LAMBDA S : DerEnc(env, T, v, S), b, DerDevs)
               IN IF ex # "none" THEN V("DER", "dev", ex)
                  ELSE V("DER", "reject",
                         IF ~p.ok THEN "not a TLV: " \o p.why
                         ELSE IF DerNodeViolation(p.t) # "" THEN "not DER: " \o DerNodeViolation(p.t)
                         ELSE "differs from X.690 DER; expected " \o ToString(std))

------------------------------------------------------------------------------
(* C05: PER / UPER output is the X.691 encoding                             *)

PerVerdict(env, T, v, o) ==
  IF o.enc.st # "ok"
  THEN (IF Admits(env, T, v)
        THEN V("PER", "reject", ExcKey("enc", o.enc) \o " applicable:" \o ToString(RtApplicable(env, T, v, o.codec)))
        ELSE V("PER", "skip", "value not admitted and not encoded"))
  ELSE IF ~Admits(env, T, v) THEN V("PER", "skip", "value not admitted")
  ELSE LET b == o.enc.b
           al == o.codec = "per"
           std == PerEncode(env, T, v, al, {})
       IN IF b = std THEN V("PER", "ok", "")
          ELSE LET ex == Explaining(LAMBDA S : PerEncode(env, T, v, al, S), b, PerDevs)
               IN IF ex # "none" THEN V("PER", "dev", ex)
                  ELSE V("PER", "reject", "differs from X.691; expected " \o ToString(std)
                                          \o " applicable:" \o ToString(RtApplicable(env, T, v, o.codec)))

------------------------------------------------------------------------------
(* C06: OER output is the X.696 encoding                                    *)

OerVerdict(env, T, v, o) ==
  IF o.enc.st # "ok"
  THEN (IF Admits(env, T, v)
        THEN V("OER", "reject", ExcKey("enc", o.enc) \o " applicable:" \o ToString(RtApplicable(env, T, v, o.codec)))
        ELSE V("OER", "skip", "value not admitted and not encoded"))
  ELSE IF ~Admits(env, T, v) THEN V("OER", "skip", "value not admitted")
  ELSE LET b == o.enc.b
           std == OerEncode(env, T, v, {})
           optsA == {"OptOerNamedBitsAsGiven"}
           optsB == {"OptOerDefaultEquivalentEncoded"}
       IN IF b = std \/ b = OerEncode(env, T, v, optsA) \/ b = OerEncode(env, T, v, optsB)
             \/ b = OerEncode(env, T, v, optsA \cup optsB) THEN V("OER", "ok", "")
          ELSE LET ex1 == Explaining(LAMBDA S : OerEncode(env, T, v, S), b, OerDevs)
                   ex2 == IF ex1 # "none" THEN ex1
                          ELSE Explaining(LAMBDA S : OerEncode(env, T, v, S \cup optsA), b, OerDevs)
                   ex == IF ex2 # "none" THEN ex2
                         ELSE Explaining(LAMBDA S : OerEncode(env, T, v, S \cup optsA \cup optsB), b, OerDevs)
               IN IF ex # "none" THEN V("OER", "dev", ex)
                  ELSE V("OER", "reject", "differs from X.696; expected " \o ToString(std)
                                          \o " applicable:" \o ToString(RtApplicable(env, T, v, o.codec)))

------------------------------------------------------------------------------
(* C16: a strict prefix of an encoding is a decode error                    *)

PrefixVerdict(env, T, v, o) ==
  LET app == ToString(RtApplicable(env, T, v, o.codec)) IN
  IF ~Has(o, "pre") THEN V("PREFIX", "skip", "no prefixes recorded")
  ELSE LET bad == SelectSeq(o.pre, LAMBDA e : ~(e.o.st = "exc" /\ InMro(e.o, "asn1tools.errors.DecodeError")))
       IN IF bad = <<>> THEN V("PREFIX", "ok", "")
          ELSE V("PREFIX", "reject",
                 (IF bad[1].o.st = "ok" THEN "decoded to a value" ELSE ExcKey("dec", bad[1].o))
                 \o " at prefix " \o ToString(bad[1].k) \o " of " \o ToString(Len(o.enc.b))
                 \o " applicable:" \o app)

------------------------------------------------------------------------------

ObsVerdicts(L, o) ==
  IF Has(o, "machinery") THEN <<V("ANY", "machinery", o.machinery)>>
  ELSE IF Has(o, "compile") THEN <<V("ANY", "skip", "not compilable: " \o ExcKey("compile", o.compile))>>   \* outside "every specification the compiler accepts"
  ELSE LET env == L.env
           T == env.types[L.top]
           v == L.vals[o.vi]
       IN (IF "RT" \in Checks THEN <<RtVerdict(env, T, v, o)>> ELSE <<>>)
          \o (IF "DER" \in Checks /\ o.codec = "der" THEN <<DerVerdict(env, T, v, o)>> ELSE <<>>)
          \o (IF "PER" \in Checks /\ o.codec \in {"per", "uper"} THEN <<PerVerdict(env, T, v, o)>> ELSE <<>>)
          \o (IF "OER" \in Checks /\ o.codec = "oer" THEN <<OerVerdict(env, T, v, o)>> ELSE <<>>)
          \o (IF "PREFIX" \in Checks THEN <<PrefixVerdict(env, T, v, o)>> ELSE <<>>)

LineReport(L) ==
  LET per == [j \in 1..Len(L.obs) |->
                LET vs == ObsVerdicts(L, L.obs[j])
                IN [k \in 1..Len(vs) |-> [vi |-> L.obs[j].vi, codec |-> L.obs[j].codec, ne |-> L.obs[j].ne,
                                          check |-> vs[k].check, verdict |-> vs[k].verdict, detail |-> vs[k].detail]]]
      all == Concat(per)
  IN [cid |-> L.cid, n |-> Len(all),
      ok |-> Len(SelectSeq(all, LAMBDA r : r.verdict = "ok")),
      other |-> SelectSeq(all, LAMBDA r : r.verdict # "ok")]

Emit(r) ==
  Serialize(ToJson(r) \o "\n", IOEnv.VERDICT_FILE,
            [format |-> "TXT", charset |-> "UTF-8", openOptions |-> <<"WRITE", "CREATE", "APPEND">>]).exitValue = 0

Init == i = 1
Next == /\ i <= Len(Tr)
        /\ Emit(LineReport(Tr[i]))
        /\ i' = i + 1
Spec == Init /\ [][Next]_vars

TraceAccepted == TLCGet("stats").diameter - 1 = Len(Tr)

=============================================================================
