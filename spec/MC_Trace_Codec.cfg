SPECIFICATION Spec
CONSTANT Checks = {"RT", "DER", "PREFIX"}
POSTCONDITION TraceAccepted
CHECK_DEADLOCK FALSE
