------------------------------ MODULE CSubset ------------------------------
(***************************************************************************)
(* C09 / C10: the subset of ASN.1 the C source generators document          *)
(* (README "The generate C source subcommand", "Limitations by design",     *)
(* "Known limitations") and the struct-level model of the generated API.    *)
(*                                                                         *)
(*   WhyOutside(env, T, codec)   "" when T lies in the documented subset of *)
(*                               the generator for `codec` ("uper" | "oer"),*)
(*                               else the name of the first limitation hit  *)
(*   InCSubset(env, T, codec)    WhyOutside = ""                            *)
(*   CStruct(env, T, v, codec)   the abstract image of `struct <T>_t` that  *)
(*                               holds v: a sequence of fields              *)
(*       [p |-> C member path, k |-> kind, ...]                             *)
(*     k = "bool"   v : BOOLEAN                                             *)
(*     k = "int"    v, lo, hi : BigInt   (lo..hi = what the member's C type *)
(*                                        has to be able to hold)           *)
(*     k = "enum"   v : item name, n : the item's number (enumerator value) *)
(*     k = "choice" v : alternative name (enumerator of <path>_choice_e)    *)
(*     k = "bytes"  v : Seq(0..255)      (the first Len(v) octets of buf)   *)
(*     k = "real"   v : REAL value, w : 32 | 64                             *)
(*   Only meaningful members are listed: no member of an absent OPTIONAL    *)
(*   component, of an unselected alternative, no element beyond `length`.   *)
(*                                                                         *)
(* The subset, per generator (README):                                      *)
(*   both   BOOLEAN, NULL, INTEGER (lb..ub) that fits int64_t or uint64_t,  *)
(*          OCTET STRING (SIZE (n | a..b)), BIT STRING (SIZE (n <= 64)),     *)
(*          ENUMERATED, SEQUENCE with OPTIONAL / DEFAULT, SEQUENCE          *)
(*          (SIZE (n | a..b)) OF, CHOICE, references (no recursion), an     *)
(*          extension marker without additions                             *)
(*   OER    also REAL with the binary32 / binary64 inner subtyping and      *)
(*          extension additions ("only supported in the OER generator");    *)
(*          version brackets [[ ]] are not documented and stay outside      *)
(*   extensible constraints (0..7, ...) have no known maximum size: outside *)
(*                                                                         *)
(* REAL descriptors of this family carry  wc : "N" | "B32" | "B64"          *)
(* (REAL (WITH COMPONENTS { mantissa (..), base (2), exponent (..) }) with  *)
(* the IEEE 754 binary32 / binary64 bounds of X.696 12.2-12.4).             *)
(*                                                                         *)
(* The member naming is the convention of the generated header shown in    *)
(* the README / tests/files/c_source/{oer,uper}.h:                          *)
(*   <m>, is_<m>_present, is_<m>_addition_present, <m>.length, <m>.buf,     *)
(*   <m>.elements[i], <m>.choice, <m>.value.<alt>, `value` for a type that  *)
(*   is a primitive at the top level or a referenced ENUMERATED/BIT STRING. *)
(***************************************************************************)
EXTENDS Asn1Value, TLC

CP63 == TwoTo(63)
CP64 == TwoTo(64)

RealWc(T) == IF "wc" \in DOMAIN T THEN T.wc ELSE "N"

\* README: "INTEGER must be 64 bits or less" -- int64_t or uint64_t holds the range
IntFits64(c) ==
  /\ Leq(Neg(CP63), c.lb)
  /\ Leq(c.ub, Pred(CP64))
  /\ (c.lb.neg => Leq(c.ub, Pred(CP63)))

FirstNonEmpty(ss) ==
  LET hit == SelectSeq(ss, LAMBDA s : s # "") IN IF hit = <<>> THEN "" ELSE hit[1]

HasGroup(T) == \E i \in 1..Len(T.adds) : T.adds[i].g

\* fuel = number of references that may still be chased; a recursive type runs out
RECURSIVE WhyOut(_, _, _, _)
WhyOut(env, T, codec, fuel) ==
  CASE T.k = "REF" ->
         IF T.name \notin DOMAIN env.types THEN "UNDEFINED"
         ELSE IF fuel = 0 THEN "RECURSIVE"                       \* "Recursive types are not supported"
         ELSE WhyOut(env, env.types[T.name], codec, fuel - 1)
    [] T.k \in {"BOOL", "NULL"} -> ""
    [] T.k = "INT" ->
         IF T.con.f = "N" \/ T.con.lbinf \/ T.con.ubinf THEN "INT-UNBOUNDED"   \* "known maximum size"
         ELSE IF T.con.ext THEN "INT-EXTENSIBLE"
         ELSE IF ~IntFits64(T.con) THEN "INT-GT64"
         ELSE ""
    [] T.k = "REAL" ->
         IF codec # "oer" THEN "REAL"                            \* "The OER generator also supports REAL"
         ELSE IF RealWc(T) \notin {"B32", "B64"} THEN "REAL-NOT-IEEE"
         ELSE ""
    [] T.k = "OCTS" ->
         IF T.sz.f = "N" \/ T.sz.ubinf THEN "OCTS-UNBOUNDED"
         ELSE IF T.sz.ext THEN "SIZE-EXTENSIBLE"
         ELSE ""
    [] T.k = "BITS" ->
         IF T.sz.f = "N" \/ T.sz.ubinf \/ T.sz.lb # T.sz.ub THEN "BITS-VARSIZE"
         ELSE IF T.sz.ext THEN "SIZE-EXTENSIBLE"
         ELSE IF T.sz.ub > 64 THEN "BITS-GT64"
         ELSE ""
    [] T.k = "ENUM" ->                                            \* an empty "..." is in the subset;
         IF T.adds # <<>> /\ codec # "oer" THEN "ENUM-ADDITIONS" ELSE ""   \* additions "only in the OER generator"
    [] T.k = "SEQ" ->
         IF T.adds # <<>> /\ codec # "oer" THEN "SEQ-ADDITIONS"   \* "only supported in the OER generator"
         ELSE IF HasGroup(T) THEN "SEQ-ADDITION-GROUP"
         ELSE LET ms == AllMembers(T)
              IN FirstNonEmpty([i \in 1..Len(ms) |-> WhyOut(env, ms[i].t, codec, fuel)])
    [] T.k = "CHOICE" ->
         IF T.adds # <<>> /\ codec # "oer" THEN "CHOICE-ADDITIONS"
         ELSE FirstNonEmpty([i \in 1..Len(AllAlts(T)) |-> WhyOut(env, AllAlts(T)[i].t, codec, fuel)])
    [] T.k = "SEQOF" ->
         IF T.sz.f = "N" \/ T.sz.ubinf THEN "SEQOF-UNBOUNDED"
         ELSE IF T.sz.ext THEN "SIZE-EXTENSIBLE"
         ELSE WhyOut(env, T.e, codec, fuel)
    [] T.k = "SET" -> "SET"
    [] T.k = "SETOF" -> "SETOF"
    [] T.k = "STR" -> "STRING"
    [] T.k = "OID" -> "OID"
    [] OTHER -> "UNSUPPORTED-KIND"

WhyOutside(env, T, codec) == WhyOut(env, T, codec, Cardinality(DOMAIN env.types) + 1)
InCSubset(env, T, codec) == WhyOutside(env, T, codec) = ""

------------------------------------------------------------------------------
(* the struct image                                                          *)

\* C identifiers: everything but letters and digits becomes '_' (only the names
\* the generators of this family use need an entry)
CName(n) == CASE n = "a-b" -> "a_b" [] n = "a-c" -> "a_c" [] OTHER -> n

PJoin(pre, name) == IF pre = "" THEN name ELSE pre \o "." \o name

FBool(p, b) == [p |-> p, k |-> "bool", v |-> b]
FInt(p, v, lo, hi) == [p |-> p, k |-> "int", v |-> v, lo |-> lo, hi |-> hi]
FEnum(p, name, num) == [p |-> p, k |-> "enum", v |-> name, n |-> num]
FChoice(p, name) == [p |-> p, k |-> "choice", v |-> name]
FBytes(p, bs) == [p |-> p, k |-> "bytes", v |-> bs]
FReal(p, r, w) == [p |-> p, k |-> "real", v |-> r, w |-> w]

\* the n bits of a BIT STRING (SIZE (n)) value as the unsigned number the C member holds:
\*   UPER generator: the n bits as an n-bit number (first bit most significant);
\*   OER generator:  the ceil(n/8) content octets as a big-endian number (first bit =
\*                   most significant bit of the first octet, unused low bits zero)
\* (tests/test_uper.c uper_c_source_ao: c = 0x5, tests/test_oer.c oer_c_source_ao: c = 0x50
\* for '0101'B of BIT STRING (SIZE (4)))
BitsAsNumber(v, codec) ==
  LET bits == BitsOf(v)
  IN IF codec = "oer" THEN Mk(FALSE, MagFromBits(PadBitsToOctet(bits)))
                      ELSE Mk(FALSE, MagFromBits(bits))

BitsMax(n, codec) ==
  IF codec = "oer" THEN Pred(TwoTo(8 * ((n + 7) \div 8))) ELSE Pred(TwoTo(n))

\* where the scalar of a primitive lives: `value` at the top level of a struct
Scalar(pre) == IF pre = "" THEN "value" ELSE pre

\* a component whose type is a reference to an ENUMERATED / BIT STRING user type is a
\* nested `struct <user type>_t`, whose scalar member is `value`
RECURSIVE CFields(_, _, _, _, _, _)
CFields(env, T, v, codec, pre, viaRef) ==
  CASE T.k = "REF" -> CFields(env, env.types[T.name], v, codec, pre, TRUE)
    [] T.k = "NULL" -> <<>>
    [] T.k = "BOOL" -> <<FBool(Scalar(pre), v)>>
    [] T.k = "INT" -> <<FInt(Scalar(pre), v, T.con.lb, T.con.ub)>>
    [] T.k = "REAL" -> <<FReal(Scalar(pre), v, IF RealWc(T) = "B32" THEN 32 ELSE 64)>>
    [] T.k = "ENUM" ->
         LET its == AllAlts(T)
             it == its[MemberIndex(its, v)]
         IN <<FEnum(IF pre # "" /\ viaRef THEN pre \o ".value" ELSE Scalar(pre), CName(v), it.v)>>
    [] T.k = "BITS" ->
         <<FInt(IF pre # "" /\ viaRef THEN pre \o ".value" ELSE Scalar(pre),
                BitsAsNumber(v, codec), Zero, BitsMax(T.sz.ub, codec))>>
    [] T.k = "OCTS" ->
         (IF T.sz.lb # T.sz.ub THEN <<FInt(PJoin(pre, "length"), FromInt(Len(v)), Zero, FromInt(T.sz.ub))>> ELSE <<>>)
         \o <<FBytes(PJoin(pre, "buf"), v)>>
    [] T.k = "SEQ" ->
         LET root == T.root
             adds == AddMembers(T.adds)
             rootF(i) ==
               LET m == root[i]
                   nm == CName(m.n)
                   x == v[m.n]
               IN CASE m.q = "O" ->
                         <<FBool(PJoin(pre, "is_" \o nm \o "_present"), x.p)>>
                         \o (IF x.p THEN CFields(env, m.t, x.v, codec, PJoin(pre, nm), FALSE) ELSE <<>>)
                    [] m.q = "D" ->
                         CFields(env, m.t, IF x.p THEN x.v ELSE m.d, codec, PJoin(pre, nm), FALSE)
                    [] OTHER -> CFields(env, m.t, x.v, codec, PJoin(pre, nm), FALSE)
             addF(i) ==
               LET m == adds[i]
                   x == v[m.n]
               IN <<FBool(PJoin(pre, "is_" \o CName(m.n) \o "_addition_present"), x.p)>>
                  \o (IF x.p THEN CFields(env, m.t, x.v, codec, PJoin(pre, CName(m.n)), FALSE) ELSE <<>>)
         IN Concat([i \in 1..Len(root) |-> rootF(i)]) \o Concat([i \in 1..Len(adds) |-> addF(i)])
    [] T.k = "CHOICE" ->
         LET alts == AllAlts(T)
             alt == alts[MemberIndex(alts, v.a)]
         IN <<FChoice(PJoin(pre, "choice"), CName(v.a))>>
            \o CFields(env, alt.t, v.v, codec, PJoin(PJoin(pre, "value"), CName(v.a)), FALSE)
    [] T.k = "SEQOF" ->
         (IF T.sz.lb # T.sz.ub THEN <<FInt(PJoin(pre, "length"), FromInt(Len(v)), Zero, FromInt(T.sz.ub))>> ELSE <<>>)
         \o Concat([i \in 1..Len(v) |->
                      CFields(env, T.e, v[i], codec, PJoin(pre, "elements[" \o ToString(i - 1) \o "]"), FALSE)])

CStruct(env, T, v, codec) == CFields(env, T, v, codec, "", FALSE)

------------------------------------------------------------------------------
(* which C storage types can hold lo..hi                                     *)

CTypeRange(ct) ==   \* <<known, lo, hi>>
  CASE ct = "uint8_t"  -> <<TRUE, Zero, FromInt(255)>>
    [] ct = "uint16_t" -> <<TRUE, Zero, FromInt(65535)>>
    [] ct = "uint32_t" -> <<TRUE, Zero, Pred(TwoTo(32))>>
    [] ct = "uint64_t" -> <<TRUE, Zero, Pred(CP64)>>
    [] ct = "int8_t"   -> <<TRUE, FromInt(-128), FromInt(127)>>
    [] ct = "int16_t"  -> <<TRUE, FromInt(-32768), FromInt(32767)>>
    [] ct = "int32_t"  -> <<TRUE, Neg(TwoTo(31)), Pred(TwoTo(31))>>
    [] ct = "int64_t"  -> <<TRUE, Neg(CP63), Pred(CP63)>>
    [] OTHER -> <<FALSE, Zero, Zero>>

CTypeHolds(ct, lo, hi) ==
  LET r == CTypeRange(ct) IN r[1] /\ Leq(r[2], lo) /\ Leq(hi, r[3])

------------------------------------------------------------------------------
(* V1 / V2: what a decoder of version 1 must make of a value of version 2    *)
(* (X.680 extensibility: unknown extension additions are skipped)            *)

RECURSIVE ProjectV(_, _, _, _, _)
ProjectV(env1, T1, env2, T2, v) ==
  CASE T1.k = "REF" -> ProjectV(env1, env1.types[T1.name], env2, T2, v)
    [] T2.k = "REF" -> ProjectV(env1, T1, env2, env2.types[T2.name], v)
    [] T1.k = "SEQ" ->
         LET ms1 == AllMembers(T1)
             ms2 == AllMembers(T2)
             names1 == {ms1[i].n : i \in 1..Len(ms1)}
         IN [nm \in names1 |->
               LET m1 == ms1[MemberIndex(ms1, nm)]
                   m2 == ms2[MemberIndex(ms2, nm)]
               IN IF v[nm].p THEN Present(ProjectV(env1, m1.t, env2, m2.t, v[nm].v)) ELSE Absent]
    [] T1.k = "CHOICE" ->
         LET a1 == AllAlts(T1)  a2 == AllAlts(T2)
         IN [a |-> v.a, v |-> ProjectV(env1, a1[MemberIndex(a1, v.a)].t, env2, a2[MemberIndex(a2, v.a)].t, v.v)]
    [] T1.k = "SEQOF" -> [i \in 1..Len(v) |-> ProjectV(env1, T1.e, env2, T2.e, v[i])]
    [] OTHER -> v

=============================================================================
