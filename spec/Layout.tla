------------------------------- MODULE Layout -------------------------------
(***************************************************************************)
(* C14: the layout of an ASN.1 text as a transition system.                *)
(*                                                                         *)
(* A state is a token list (a window of a real text: its lexical items in  *)
(* order, read from IOEnv.TOKENS_FILE) together with the *filler* that     *)
(* currently stands between each pair of adjacent tokens (initially the    *)
(* filler of the original text: white-space and comments).  One action     *)
(* replaces the filler at one boundary by a member of Fillers -- nothing,  *)
(* blanks, tab, (CR) new-line, the comment forms of X.680 12.6 -- at any   *)
(* boundary where X.680 allows it, including the boundaries between the    *)
(* words of multi-word keywords.  The boundaries are visited left to right *)
(* (gB), so that a behaviour is a schedule of changes without repetitions. *)
(*                                                                         *)
(* The invariant of the model: the sequence of lexical items of the        *)
(* rendered text (XLex of Comments.tla) is the token list, whatever the    *)
(* schedule.  Finish hands the schedule to the harness (binding A),        *)
(* optionally with a syntax error to inject at a token near the last       *)
(* change.                                                                 *)
(***************************************************************************)
EXTENDS Comments

CONSTANTS MaxChanges,   \* longest schedule
          MinChanges,   \* shortest schedule that is handed out
          Skips,        \* how far the next change may lie from the previous one (in boundaries)
          OnlyBfs,      \* TRUE: only the windows marked for exhaustive exploration
          FillerIdx,    \* the fillers in use (indices into Fillers)
          Inject,       \* TRUE: Finish also hands out variants with a syntax error to inject
          FinishEarly,  \* TRUE: every schedule is handed out; FALSE: only complete sweeps (cursor at the end)
          OnlyWordPairs \* TRUE: only boundaries between the words of multi-word keywords are changed

\* [wid, toks, fill0, bfs, inj]: token strings, original fillers (Len(toks) - 1 of them),
\* exhaustive exploration wanted, error injection possible (first window of a small text that parses)
Wins == ndJsonDeserialize(IOEnv.TOKENS_FILE)

Fillers == <<"", " ", "  ", "\t", "\n", "--c\n", "--c--", "/*c*/", "/*a/*b*/c*/", "/*c\nd*/", "\r\n",
             "/*\f\"*/", "--\"\f\n">>      \* comment text is arbitrary: a form feed, a quotation mark
AnySkip == 1..100000
AllFillers == 1..Len(Fillers)

VARIABLES gW, gFill, gB, gN, gCh, gDone
layVars == <<gW, gFill, gB, gN, gCh, gDone>>

NTok(w) == Len(Wins[w].toks)

\* text of a token list with fillers (as a string)
Render(toks, fill) ==
  FoldLeft(LAMBDA acc, j : acc \o fill[j - 1] \o toks[j], toks[1], [j \in 1..(Len(toks) - 1) |-> j + 1])

\* X.680 12.1: a filler may stand between two items iff the items of "a filler b" are a, b
Inert(a, f, b) == XLex(Explode(a \o f \o b)) = <<a, b>>

\* The guard of Change: a cheap sufficient condition for Inert (the implication MayPlace => Inert is
\* checked on every boundary changed, LastChangeInert, and on samples in tests/TestComments.tla).
\* A non-empty filler is white-space and complete comments on its own, and no comment marker
\* forms across either of its ends; the empty filler needs the full test.
LastCh(s) == SubSeq(s, Len(s), Len(s))
FirstCh(s) == SubSeq(s, 1, 1)
FillerIsBlank(f) ==
  /\ f # ""
  /\ LET cs == Explode(f)
         st == ScanChars(cs, {})
     IN st.mode = "Code" /\ \A j \in 1..Len(cs) : BlankChars(cs, st.kept)[j] \in WhiteSpace
FillerOK == ForceSeq([fi \in 1..Len(Fillers) |-> FillerIsBlank(Fillers[fi])])
NoMarkerAcross(x, y) == (x \o y) \notin {"--", "/*", "*/"}
MayPlace(a, fi, b) ==
  IF Fillers[fi] = ""
  THEN (IF LastCh(a) \in NameChars /\ FirstCh(b) \in NameStart THEN FALSE        \* two names would merge
        ELSE IF a \in Abutting \/ b \in Abutting THEN TRUE                       \* { } ( ) , ; stand alone
        ELSE Inert(a, "", b))
  ELSE /\ FillerOK[fi]
       /\ NoMarkerAcross(LastCh(a), FirstCh(Fillers[fi]))
       /\ NoMarkerAcross(LastCh(Fillers[fi]), FirstCh(b))

HasMarker(tok) == \E j \in 1..(Len(tok) - 1) : SubSeq(tok, j, j + 1) \in {"--", "/*", "*/"}
\* the window is free of the input classes of the known scanner deviations
PlainTokens(w) == \A j \in 1..NTok(w) : ~HasMarker(Wins[w].toks[j])
\* no change at a boundary in the input class of a known layout deviation of the implementation
\* (inside a keyword it matches as one literal, inside CLASS.&field, behind END SEQUENCE ENUMERATED WITH)
NoAffectedBoundaryChanged ==
  \A q \in 1..Len(gCh) :
    LET b == gCh[q][1]
        t == Wins[gW].toks
    IN /\ ~InAffectedKeyword(t[b], t[b + 1])
       /\ t[b] \notin SpaceHungryWords
       /\ ~(t[b] = "." /\ FirstCh(t[b + 1]) = "&")
       /\ ~(t[b + 1] = "." /\ b + 2 <= Len(t) /\ FirstCh(t[b + 2]) = "&")

LayInit ==
  /\ gW \in {w \in 1..Len(Wins) : Wins[w].bfs \/ ~OnlyBfs}
  /\ gFill = Wins[gW].fill0
  /\ gB = 1 /\ gN = 0 /\ gCh = <<>> /\ gDone = FALSE

Change ==
  /\ ~gDone /\ gN < MaxChanges
  /\ \E sk \in Skips, fi \in FillerIdx :
       LET b == gB + sk - 1 IN
       /\ b < NTok(gW)
       /\ OnlyWordPairs => InMultiWord(Wins[gW].toks[b], Wins[gW].toks[b + 1])
       /\ Fillers[fi] # gFill[b]
       /\ MayPlace(Wins[gW].toks[b], fi, Wins[gW].toks[b + 1])
       /\ gFill' = [gFill EXCEPT ![b] = Fillers[fi]]
       /\ gB' = b + 1 /\ gN' = gN + 1 /\ gCh' = Append(gCh, <<b, fi>>)
  /\ UNCHANGED <<gW, gDone>>

\* the invariant of the model
TokenSeqUnchanged == XLex(Explode(Render(Wins[gW].toks, gFill))) = Wins[gW].toks
\* (lexing a whole window in every state is affordable for small windows only)
TokenSeqUnchangedSmall == NTok(gW) <= 45 => TokenSeqUnchanged
\* its local form: the boundary changed last still separates its two tokens (MayPlace => Inert)
LastChangeInert ==
  gN > 0 => LET b == gCh[gN][1] IN Inert(Wins[gW].toks[b], gFill[b], Wins[gW].toks[b + 1])

\* errors to inject: at the token after the last changed boundary, two tokens later, and by deleting
\* the next "::=" (only in whole small texts, away from the known deviations)
InjChoices ==
  {<<0, "none">>} \cup
  (IF Inject /\ Wins[gW].inj /\ gN > 0 /\ PlainTokens(gW) /\ NoAffectedBoundaryChanged
   THEN LET b == gCh[gN][1]
            n == NTok(gW)
            assigns == {j \in (b + 1)..n : Wins[gW].toks[j] = "::="}
        IN {<<b + 1, "bad">>, <<IF b + 3 <= n THEN b + 3 ELSE n, "bad">>}
           \cup (IF assigns = {} THEN {} ELSE {<<CHOOSE j \in assigns : \A q \in assigns : j <= q, "del">>})
   ELSE {})

EmitCase(inj) ==
  Serialize(ToJson([wid |-> Wins[gW].wid, ch |-> gCh, ik |-> inj[1], ikind |-> inj[2]]) \o "\n", IOEnv.OUT_FILE,
            [format |-> "TXT", charset |-> "UTF-8", openOptions |-> <<"WRITE", "CREATE", "APPEND">>]).exitValue = 0

Finish ==
  /\ ~gDone /\ gN >= MinChanges
  /\ (IF FinishEarly THEN TRUE ELSE IF gN = MaxChanges THEN TRUE ELSE gB >= NTok(gW))
  /\ \A inj \in InjChoices : EmitCase(inj)
  /\ gDone' = TRUE
  /\ UNCHANGED <<gW, gFill, gB, gN, gCh>>

LayNext == Change \/ Finish
LaySpec == LayInit /\ ScannerIdle /\ [][LayNext /\ ScannerStays]_<<layVars, scanVars>>

\* for trace specifications that extend this module
LayoutIdle == gW = 0 /\ gFill = <<>> /\ gB = 0 /\ gN = 0 /\ gCh = <<>> /\ gDone = FALSE
LayoutStays == UNCHANGED layVars

------------------------------------------------------------------------------
(* positions of tokens in a rendered text (for error locations)             *)

\* Longer stretches of text are handled as sequences of lines (each with its new-line, except possibly
\* the last), as the harness records them: TLC's string operators are linear in the string.
JoinLines(ls) == FoldLeft(LAMBDA acc, ln : acc \o ln, "", ls)
ExplodeLines(ls) == FlattenSeq([q \in 1..Len(ls) |-> Explode(ls[q])])
EndsNL(ln) == Len(ln) > 0 /\ SubSeq(ln, Len(ln), Len(ln)) = NL
NLCount(ls) == Cardinality({q \in 1..Len(ls) : EndsNL(ls[q])})
TotalLen(ls) == FoldLeft(LAMBDA acc, ln : acc + Len(ln), 0, ls)
AfterLastNL(ls) == FoldLeft(LAMBDA acc, ln : IF EndsNL(ln) THEN 0 ELSE acc + Len(ln), 0, ls)   \* characters behind the last new-line

\* a stretch of text between tokens as its reader counts lines and columns in it: X.680 keeps every
\* new-line (D = {}: the text itself); a reader with scanner deviations D sees the text blanked its way
ReadAs(ls, D) == IF D = {} THEN ls ELSE ScanLines(ls, D).out

\* [line, col, cole] of the tokens 1..upto of  lead \o Render(toks, fill): 1-based line, first and last column
\* (lead and every filler given as lines)
PositionsAfter(lead, toks, fill, D, upto) ==
  LET f == ReadAs(lead, D)
      first == [line |-> 1 + NLCount(f), col |-> AfterLastNL(f) + 1, cole |-> AfterLastNL(f) + Len(toks[1])]
  IN FoldLeft(LAMBDA acc, j :
                LET prev == acc[Len(acc)]
                    g == ReadAs(fill[j - 1], D)
                    col == IF NLCount(g) = 0 THEN prev.cole + 1 + TotalLen(g) ELSE AfterLastNL(g) + 1
                IN Append(acc, [line |-> prev.line + NLCount(g), col |-> col, cole |-> col + Len(toks[j]) - 1]),
              <<first>>, [j \in 1..(upto - 1) |-> j + 1])

\* the token a reported position (line, col) falls on: on it or just behind it; Len+1 = end of text
TokenAt(pos, line, col) ==
  LET hits == {j \in 1..Len(pos) : pos[j].line = line /\ pos[j].col <= col /\ col <= pos[j].cole + 1}
      after == {j \in 1..Len(pos) : pos[j].line > line \/ (pos[j].line = line /\ pos[j].col > col)}
  IN IF hits # {} THEN CHOOSE j \in hits : \A q \in hits : j >= q          \* the later one if two abut
     ELSE IF after = {} THEN Len(pos) + 1
     ELSE 0 - (CHOOSE j \in after : \A q \in after : j <= q)               \* in the filler before token j

=============================================================================
