----------------------------- MODULE Trace_CGen -----------------------------
(***************************************************************************)
(* Binding B for C09 / C10: one recorded line per case of CGen (a type,    *)
(* its values, what the C source generator did with the module, what the   *)
(* compilers said, and the transcript of the generated code running under  *)
(* AddressSanitizer + UBSan next to the Python codec).  One action consumes *)
(* one line and judges every observation in it:                            *)
(*                                                                         *)
(*  GEN    a type outside InCSubset must be refused with asn1tools.errors.  *)
(*         Error; a type inside must be accepted                           *)
(*  CC     the emitted source compiles as C99 (gcc) and links (clang)      *)
(*  SET    the emitted struct can hold the value (every member of CStruct   *)
(*         exists, has the right kind, and its C type holds the value)     *)
(*  ENC    with a destination of exactly len and of len + 1 octets the C    *)
(*         encoder returns len and writes exactly the Python codec's bytes *)
(*  SMALL  with every destination size 0 .. len - 1 it returns an error    *)
(*  DEC    the C decoder consumes exactly the Python bytes and the struct   *)
(*         (0xA5-filled before) equals CStruct(env, T, v) member by member, *)
(*         and every integer member's C type can hold the declared range   *)
(*  REENC  the decoded struct encodes to the Python bytes again            *)
(*  ADV    an adversarial input the decoder accepts is a fixed point:      *)
(*         decode -> encode -> decode gives the same struct image, the     *)
(*         second decode consumes the whole re-encoding, and the second    *)
(*         encoding equals the first                                       *)
(*  V1V2   (OER) bytes of version 2 from the Python encoder decode, with    *)
(*         the version-1 C decoder, to CStruct of the projected value and  *)
(*         are consumed completely (unknown additions skipped)             *)
(*  CRASH  no action of this specification produces a sanitizer report, an *)
(*         abnormal exit or a hang: every such event is rejected           *)
(*                                                                         *)
(* A rejected observation never stops the run; exactly one report per line *)
(* is appended to VERDICT_FILE.                                            *)
(***************************************************************************)
EXTENDS CSubset, TLCExt, Json, IOUtils

Tr == ndJsonDeserialize(IOEnv.TRACE_FILE)

VARIABLE i
vars == <<i>>

Has(r, f) == f \in DOMAIN r
InMro(o, name) == \E j \in 1..Len(o.mro) : o.mro[j] = name

ExcKey(o) ==
  IF o.st = "exc" THEN "exc:" \o o.cls \o "@" \o o.site
  ELSE IF o.st = "timeout" THEN "timeout@" \o o.site
  ELSE "bad:" \o o.st

V(check, vi, verdict, detail) == [check |-> check, vi |-> vi, verdict |-> verdict, detail |-> detail]

Hex(bs) ==
  LET d == <<"0", "1", "2", "3", "4", "5", "6", "7", "8", "9", "a", "b", "c", "d", "e", "f">>
  IN FoldLeft(LAMBDA acc, x : acc \o d[(x \div 16) + 1] \o d[(x % 16) + 1], "", SubSeq(bs, 1, Min2(Len(bs), 24)))
     \o (IF Len(bs) > 24 THEN ".." ELSE "")

------------------------------------------------------------------------------
(* input classes (predicates over the case) under which a known finding is   *)
(* listed; a rejection names the classes that hold for its case              *)

\* all type nodes reachable from T (through members, elements, references), as a sequence
RECURSIVE TypeNodes(_, _, _)
TypeNodes(env, T, fuel) ==
  <<T>> \o
  CASE T.k = "REF" -> IF fuel > 0 /\ T.name \in DOMAIN env.types THEN TypeNodes(env, env.types[T.name], fuel - 1) ELSE <<>>
    [] T.k \in {"SEQ", "SET"} -> Concat([j \in 1..Len(AllMembers(T)) |-> TypeNodes(env, AllMembers(T)[j].t, fuel)])
    [] T.k = "CHOICE" -> Concat([j \in 1..Len(AllAlts(T)) |-> TypeNodes(env, AllAlts(T)[j].t, fuel)])
    [] T.k \in {"SEQOF", "SETOF"} -> TypeNodes(env, T.e, fuel)
    [] OTHER -> <<>>

TypeHas(env, T, P(_)) ==
  LET ns == TypeNodes(env, T, Cardinality(DOMAIN env.types) + 1) IN \E j \in 1..Len(ns) : P(ns[j])

\* SEQUENCE value nodes of a value (through present members, selected alternatives, elements)
RECURSIVE SeqVals(_, _, _)
SeqVals(env, T, v) ==
  CASE T.k = "REF" -> SeqVals(env, env.types[T.name], v)
    [] T.k = "SEQ" ->
         LET ms == AllMembers(T)
         IN <<[t |-> T, v |-> v]>> \o
            Concat([j \in 1..Len(ms) |-> IF v[ms[j].n].p THEN SeqVals(env, ms[j].t, v[ms[j].n].v) ELSE <<>>])
    [] T.k = "CHOICE" -> LET alts == AllAlts(T) IN SeqVals(env, alts[MemberIndex(alts, v.a)].t, v.v)
    [] T.k = "SEQOF" -> Concat([j \in 1..Len(v) |-> SeqVals(env, T.e, v[j])])
    [] OTHER -> <<>>

\* the width class the unsigned and the signed bound fall into (8/16/32/64)
UWidth(ub) == IF Leq(ub, FromInt(255)) THEN 8 ELSE IF Leq(ub, FromInt(65535)) THEN 16
              ELSE IF Leq(ub, Pred(TwoTo(32))) THEN 32 ELSE 64
SWidthLb(lb) == IF Leq(FromInt(-128), lb) THEN 8 ELSE IF Leq(FromInt(-32768), lb) THEN 16
                ELSE IF Leq(Neg(TwoTo(31)), lb) THEN 32 ELSE 64
IsClosedInt(T) == T.k = "INT" /\ T.con.f = "R" /\ ~T.con.lbinf /\ ~T.con.ubinf

\* INTEGER (lb..ub) with lb < 0 whose upper bound needs one more bit than the unsigned
\* width class of ub offers, e.g. (-1..255), (-128..65407)  [source/c/utils.py type_length]
IsSignedUpperHalf(T) ==
  /\ IsClosedInt(T) /\ T.con.lb.neg
  /\ LET w == Max2(UWidth(T.con.ub), SWidthLb(T.con.lb)) IN ~Leq(T.con.ub, Pred(TwoTo(w - 1)))

\* signed INTEGER (lb..ub), lb # -2^63, whose range spans 2^63 or more values: value - lb overflows int64_t
\* [source/c/uper.py format_integer_inner: (uint64_t)(src_p->x - lb), dst_p->x += lb]
IsInt64Offset(T) ==
  /\ IsClosedInt(T) /\ T.con.lb.neg /\ ~Eq(T.con.lb, Neg(CP63))
  /\ Leq(CP63, Sub(T.con.ub, T.con.lb))

HasDefaultOf(T, kinds, env) ==
  T.k = "SEQ" /\ \E j \in 1..Len(AllMembers(T)) : AllMembers(T)[j].q = "D" /\ Base(env, AllMembers(T)[j].t).k \in kinds
HasDefaultFixedOcts(T, env) ==
  T.k = "SEQ" /\ \E j \in 1..Len(AllMembers(T)) :
     LET m == AllMembers(T)[j] IN m.q = "D" /\ Base(env, m.t).k = "OCTS" /\ Base(env, m.t).sz.lb = Base(env, m.t).sz.ub
HasDefaultBoolRef(T, env) ==
  T.k = "SEQ" /\ \E j \in 1..Len(AllMembers(T)) :
     LET m == AllMembers(T)[j] IN m.q = "D" /\ m.t.k = "REF" /\ Base(env, m.t).k = "BOOL"

AdditionTypes(T) == IF T.k = "SEQ" THEN [j \in 1..Len(AddMembers(T.adds)) |-> AddMembers(T.adds)[j].t] ELSE <<>>
\* some extension addition of T contains (at any depth) a type satisfying P
AdditionHas(env, T, P(_)) == \E j \in 1..Len(AdditionTypes(T)) : TypeHas(env, AdditionTypes(T)[j], P)

AddPresent(n) == \E j \in 1..Len(AddMembers(n.t.adds)) : n.v[AddMembers(n.t.adds)[j].n].p
\* a non-OPTIONAL, non-DEFAULT addition is absent while a later addition is present
MandatoryAdditionAbsent(n) ==
  LET as == AddMembers(n.t.adds)
  IN \E j, k \in 1..Len(as) : j < k /\ as[j].q = "M" /\ ~n.v[as[j].n].p /\ n.v[as[k].n].p
\* the number of additions is a positive multiple of 8 and an addition is present
AdditionsMultipleOf8(n) == Len(AddMembers(n.t.adds)) > 0 /\ Len(AddMembers(n.t.adds)) % 8 = 0 /\ AddPresent(n)
\* some member that is not mandatory (OPTIONAL / DEFAULT / an addition) is not encoded
SomethingOmitted(env, n) ==
  \E j \in 1..Len(AllMembers(n.t)) :
     LET m == AllMembers(n.t)[j]
     IN \/ ~n.v[m.n].p
        \/ m.q = "D" /\ AbsEq(env, m.t, n.v[m.n].v, m.d)
\* a present extension addition contains a SEQUENCE value in which something is omitted
AdditionWithOmission(env, n) ==
  \E j \in 1..Len(AddMembers(n.t.adds)) :
     LET m == AddMembers(n.t.adds)[j]
     IN n.v[m.n].p /\ \E k \in 1..Len(SeqVals(env, m.t, n.v[m.n].v)) : SomethingOmitted(env, SeqVals(env, m.t, n.v[m.n].v)[k])

AnySeqVal(env, T, v, P(_)) == \E j \in 1..Len(SeqVals(env, T, v)) : P(SeqVals(env, T, v)[j])

\* classes of the type (independent of the value) that matter for check `chk`
TypeClasses(chk, env, T, codec) ==
  LET bytesChk == chk \in {"ENC", "SMALL", "DEC", "REENC"}
      on(c, name) == IF c THEN {name} ELSE {}
  IN on(codec = "uper" /\ bytesChk /\ TypeHas(env, T, LAMBDA t : t.k = "CHOICE" /\ t.ext), "UperChoiceExtensionMarker")
     \cup on(codec = "uper" /\ bytesChk /\ TypeHas(env, T, LAMBDA t : t.k = "ENUM" /\ t.ext), "UperEnumExtensionMarker")
     \cup on((bytesChk \/ chk \in {"SET", "V1V2", "CRASH"}) /\ TypeHas(env, T, IsSignedUpperHalf), "IntSignedUpperHalf")
     \cup on(codec = "uper" /\ chk = "CRASH" /\ TypeHas(env, T, IsInt64Offset), "UperInt64OffsetOverflow")
     \cup on(chk = "CC" /\ TypeHas(env, T, LAMBDA t : HasDefaultOf(t, {"BITS"}, env)), "DefaultBitString")
     \cup on(chk = "CC" /\ TypeHas(env, T, LAMBDA t : HasDefaultFixedOcts(t, env)), "DefaultFixedOctetString")
     \cup on(bytesChk /\ TypeHas(env, T, LAMBDA t : HasDefaultBoolRef(t, env)), "DefaultBooleanViaReference")
     \cup on(codec = "oer" /\ chk = "V1V2" /\ TypeHas(env, T, LAMBDA t : t.k = "SEQ" /\ t.ext /\ t.adds = <<>>),
             "OerEmptyExtensionMarkerNotSkipped")
     \cup on(codec = "oer" /\ chk = "GEN" /\ TypeHas(env, T, LAMBDA t : AdditionHas(env, t, LAMBDA u : u.k = "BITS")),
             "OerBitStringInAddition")
     \cup on(codec = "oer" /\ chk = "CC"
             /\ TypeHas(env, T, LAMBDA t : AdditionHas(env, t, LAMBDA u :
                   \/ u.k = "SEQOF" /\ (u.sz.lb = u.sz.ub \/ Base(env, u.e).k \in {"ENUM", "CHOICE", "SEQOF"})
                   \* ... or a SEQUENCE with a DEFAULT component of variable size (`.length` is looked up on the wrong struct)
                   \/ u.k = "SEQ" /\ \E j \in 1..Len(u.root) :
                         LET b == Base(env, u.root[j].t) IN u.root[j].q = "D" /\ b.k = "OCTS" /\ b.sz.lb # b.sz.ub
                   \* ... or an inline CHOICE with an alternative of variable size (its length needs a helper / a member path that is not emitted)
                   \/ u.k = "CHOICE" /\ \E j \in 1..Len(u.root) :
                         LET b == Base(env, u.root[j].t) IN b.k = "SEQOF" \/ (b.k = "OCTS" /\ b.sz.lb # b.sz.ub))),
             "OerAdditionLengthExpression")
     \cup on(codec = "oer" /\ chk \in {"ENC", "REENC", "SMALL"} /\ TypeHas(env, T, LAMBDA t : AdditionHas(env, t, LAMBDA u : u.k = "CHOICE")),
             "OerAdditionLengthNotActual")
     \cup on(codec = "oer" /\ (bytesChk \/ chk = "SET") /\ TypeHas(env, T, LAMBDA t : t.k = "CHOICE" /\ t.adds # <<>>),
             "OerChoiceAdditions")
     \cup on(codec = "oer" /\ chk \in {"V1V2", "CRASH"}
             /\ TypeHas(env, T, LAMBDA t : t.k = "SEQ" /\ t.adds # <<>> /\ Len(AddMembers(t.adds)) % 8 = 0),
             "OerUnknownAdditionsAfterFullMaskOctet")
     \cup on(codec = "oer" /\ chk \in {"V1V2", "CRASH", "ADV"}
             /\ TypeHas(env, T, LAMBDA t : t.k = "SEQOF" /\ t.e.k = "SEQ" /\ t.e.adds # <<>>),
             "OerUnknownAdditionsClobberElementIndex")
     \cup on(codec = "oer" /\ chk \in {"DEC", "REENC", "V1V2"} /\ TypeHas(env, T, LAMBDA t : t.k = "SEQOF" /\ t.sz.lb = t.sz.ub /\ t.sz.ub > 255),
             "OerFixedSequenceOfAbove255")
     \cup on(codec = "oer" /\ bytesChk /\ TypeHas(env, T, LAMBDA t : t.k = "BITS" /\ t.sz.f = "R" /\ t.sz.ub = 0), "OerBitStringSizeZero")
     \cup on(codec = "oer" /\ (bytesChk \/ chk = "V1V2") /\ TypeHas(env, T, LAMBDA t : t.k = "BITS" /\ t.sz.f = "R" /\ t.sz.ub > 32 /\ t.sz.ub <= 56),
             "OerBitString33to56")

\* classes of the value
ValueClasses(chk, env, T, v, codec) ==
  LET bytesChk == chk \in {"ENC", "SMALL", "DEC", "REENC", "V1V2"}
      on(c, name) == IF c THEN {name} ELSE {}
  IN on(codec = "oer" /\ bytesChk /\ AnySeqVal(env, T, v, MandatoryAdditionAbsent), "OerMandatoryAdditionAbsent")
     \cup on(codec = "oer" /\ bytesChk /\ AnySeqVal(env, T, v, AdditionsMultipleOf8), "OerAdditionsMultipleOf8")
     \cup on(codec = "oer" /\ bytesChk /\ AnySeqVal(env, T, v, LAMBDA n : AdditionWithOmission(env, n)),
             "OerAdditionLengthNotActual")

TClass(chk, env, T, codec) == " applicable:" \o ToString(TypeClasses(chk, env, T, codec))
VClass(chk, env, T, v, codec) ==
  " applicable:" \o ToString(TypeClasses(chk, env, T, codec) \cup ValueClasses(chk, env, T, v, codec))

------------------------------------------------------------------------------
(* member-wise comparison of a struct image                                  *)

FieldOk(e, o) ==
  /\ o.p = e.p
  /\ o.k = e.k
  /\ CASE e.k = "bool" -> o.v = e.v
       [] e.k = "int" -> Eq(o.v, e.v) /\ CTypeHolds(o.ct, e.lo, e.hi)
       [] e.k = "enum" -> o.v = e.v /\ o.n = e.n
       [] e.k = "choice" -> o.v = e.v
       [] e.k = "bytes" -> Len(o.v) >= Len(e.v) /\ SubSeq(o.v, 1, Len(e.v)) = e.v
       [] e.k = "real" -> RealEq(o.v, e.v) /\ o.ct = (IF e.w = 32 THEN "float" ELSE "double")

\* "" when every member matches, else a description of the first one that does not
FieldsDiff(exp, obsf) ==
  IF Len(obsf) # Len(exp) THEN "recorded " \o ToString(Len(obsf)) \o " members, the value has " \o ToString(Len(exp))
  ELSE LET bad == SelectSeq([j \in 1..Len(exp) |-> j], LAMBDA j : ~FieldOk(exp[j], obsf[j]))
       IN IF bad = <<>> THEN ""
          ELSE LET e == exp[bad[1]]  o == obsf[bad[1]]
               IN "member " \o e.p \o " (" \o e.k \o "): " \o
                  (IF o.k = "missing" THEN "no such member in the generated struct"
                   ELSE IF o.k # e.k THEN "found a " \o o.k \o " member"
                   ELSE IF e.k = "int" /\ ~CTypeHolds(o.ct, e.lo, e.hi) THEN "C type " \o o.ct \o " cannot hold the declared range"
                   ELSE "value differs")

------------------------------------------------------------------------------
(* the checks                                                                *)

GenVerdict(L, env, T, why) ==
  IF why # ""
  THEN IF L.gen.st = "exc" /\ InMro(L.gen, "asn1tools.errors.Error") THEN V("GEN", 0, "ok", "")
       ELSE IF L.gen.st = "ok"
       THEN V("GEN", 0, "reject", "generator accepted a type outside the documented subset (" \o why \o ") and emitted: "
                                   \o (IF Has(L, "emitted") THEN L.emitted ELSE "?")
                                   \o " applicable:{\"AcceptedUnsupported:" \o L.codec \o ":" \o why \o "\"}")
       ELSE V("GEN", 0, "reject", "refused-with-foreign-exception:" \o L.codec \o ":" \o ExcKey(L.gen)
                                   \o " applicable:{\"ForeignException:" \o L.codec \o ":" \o why \o "\"}")
  ELSE IF L.gen.st = "ok" THEN V("GEN", 0, "ok", "")
       ELSE V("GEN", 0, "reject", "refused-supported:" \o L.codec \o ":" \o ExcKey(L.gen) \o TClass("GEN", env, T, L.codec))

CcVerdict(L, env, T) ==
  IF L.cc.gcc.rc = 0 /\ L.cc.clang.rc = 0 /\ (~Has(L, "header_error") \/ L.header_error = "") THEN V("CC", 0, "ok", "")
  ELSE V("CC", 0, "reject",
         "generated source does not compile: " \o
         (IF Has(L, "header_error") /\ L.header_error # "" THEN "header: " \o L.header_error
          ELSE IF L.cc.gcc.rc # 0 THEN "gcc: " \o L.cc.gcc.first_error
          ELSE "clang: " \o (IF L.cc.clang.errs = <<>> THEN "?" ELSE L.cc.clang.errs[1])) \o TClass("CC", env, T, L.codec))

ValueVerdicts(L, o, env, T) ==
  LET vi == o.vi IN
  IF Has(o, "machinery") THEN <<V("ANY", vi, "machinery", o.machinery)>>
  ELSE IF o.py.st # "ok" THEN <<V("ENC", vi, "skip", "python codec did not encode the value: " \o ExcKey(o.py))>>
  ELSE
  LET v == L.vals[vi]
      cls(chk) == VClass(chk, env, T, v, L.codec)
      exp == CStruct(env, T, v, L.codec)
      py == o.py.b
      n == Len(py)
      setV == IF o.set = <<>> THEN V("SET", vi, "ok", "")
              ELSE V("SET", vi, "reject", "the generated struct cannot hold the value: member " \o o.set[1].p \o " " \o o.set[1].err
                                          \o (IF Has(o.set[1], "ct") THEN " (C type " \o o.set[1].ct \o ")" ELSE "") \o cls("SET"))
      encV == IF o.set # <<>> \/ ~Has(o, "enc") \/ Has(o.enc, "crashed") THEN <<>>
              ELSE LET e == o.enc
                   IN << IF e.rets[n + 1] = n /\ e.b = py /\ e.rets[n + 2] = n /\ e.b1 = py THEN V("ENC", vi, "ok", "")
                         ELSE V("ENC", vi, "reject",
                                "C encoder output differs from the python codec: C returned " \o ToString(e.big.ret) \o " " \o Hex(e.big.b)
                                \o " (exact-size buffer: " \o ToString(e.rets[n + 1]) \o "), python " \o ToString(n) \o " " \o Hex(py)
                                \o cls("ENC")),
                         LET small == SelectSeq([s \in 1..n |-> s], LAMBDA s : e.rets[s] >= 0)
                         IN IF small = <<>> THEN V("SMALL", vi, "ok", "")
                            ELSE V("SMALL", vi, "reject",
                                   "destination of " \o ToString(small[1] - 1) \o " octets for an encoding of " \o ToString(n)
                                   \o ": encoder returned " \o ToString(e.rets[small[1]]) \o cls("SMALL")) >>
      decV == IF ~Has(o, "dec") \/ Has(o.dec, "crashed") THEN <<>>
              ELSE IF o.dec.ret # n
              THEN <<V("DEC", vi, "reject", "C decoder returned " \o ToString(o.dec.ret) \o " for the " \o ToString(n)
                                            \o " octets " \o Hex(py) \o " of the python codec" \o cls("DEC"))>>
              ELSE LET d == FieldsDiff(exp, o.dec.f)
                   IN << IF d = "" THEN V("DEC", vi, "ok", "") ELSE V("DEC", vi, "reject", "decoded struct differs: " \o d \o cls("DEC")) >>
                      \o (IF ~Has(o, "re") THEN <<>>
                          ELSE << IF o.re.ret = n /\ o.re.b = py THEN V("REENC", vi, "ok", "")
                                  ELSE V("REENC", vi, "reject", "re-encoding of the decoded struct: " \o ToString(o.re.ret) \o " "
                                                                \o Hex(o.re.b) \o ", python " \o Hex(py) \o cls("REENC")) >>)
  IN <<setV>> \o encV \o decV

AdvOk(a) == /\ a.e1 >= 0
            /\ a.d2 = a.e1
            /\ a.i1 = a.i2
            /\ a.e2 = a.e1
            /\ a.b2 = a.b1

AdvWhy(a) ==
  IF a.e1 < 0 THEN "accepted input does not re-encode (encoder returned " \o ToString(a.e1) \o ")"
  ELSE IF a.d2 # a.e1 THEN "re-encoding of " \o ToString(a.e1) \o " octets decodes with result " \o ToString(a.d2)
  ELSE IF a.i1 # a.i2 THEN "decode -> encode -> decode gives a different struct"
  ELSE "second encoding differs from the first"

AdvVerdicts(L, env, T) ==
  LET acc == L.adv.accepted
      bad == SelectSeq(acc, LAMBDA a : ~AdvOk(a))
  IN [j \in 1..Len(bad) |-> V("ADV", 0, "reject", AdvWhy(bad[j]) \o "; input " \o Hex(bad[j]["in"]) \o TClass("ADV", env, T, L.codec))]

AdvOkCount(L) == L.adv.rejected + L.adv.accepted_more + Len(SelectSeq(L.adv.accepted, AdvOk))

CrashVerdicts(L, env, T) ==
  [j \in 1..Len(L.crashes) |->
     V("CRASH", L.crashes[j].vi, "reject", "crash:" \o L.crashes[j].kind \o "@" \o L.crashes[j].frame \o TClass("CRASH", env, T, L.codec))]

PairVerdicts(L, env, T) ==
  LET one(p) ==
        IF p.py.st # "ok" THEN V("V1V2", p.vi, "skip", "python codec did not encode the version-2 value: " \o ExcKey(p.py))
        ELSE IF ~Has(p, "dec") \/ Has(p.dec, "crashed") THEN V("V1V2", p.vi, "skip", "crashed (judged as CRASH)")
        ELSE LET T2 == L.env2.types[L.top]
                 v2 == L.vals2[p.vi]
                 exp == CStruct(env, T, ProjectV(env, T, L.env2, T2, v2), L.codec)
                 n == Len(p.py.b)
                 cls == " applicable:" \o ToString(TypeClasses("V1V2", env, T, L.codec) \cup ValueClasses("V1V2", L.env2, T2, v2, L.codec))
             IN IF p.dec.ret # n
                THEN V("V1V2", p.vi, "reject", "version-1 decoder returned " \o ToString(p.dec.ret) \o " for the " \o ToString(n)
                                               \o " octets " \o Hex(p.py.b) \o " of version 2" \o cls)
                ELSE LET d == FieldsDiff(exp, p.dec.f)
                     IN IF d = "" THEN V("V1V2", p.vi, "ok", "")
                        ELSE V("V1V2", p.vi, "reject", "version-1 struct decoded from version-2 bytes differs: " \o d \o cls)
  IN [j \in 1..Len(L.pairs) |-> one(L.pairs[j])]

LineVerdicts(L) ==
  LET env == L.env
      T == env.types[L.top]
      why == WhyOutside(env, T, L.codec)
      g == GenVerdict(L, env, T, why)
  IN IF why # "" \/ L.gen.st # "ok" THEN <<g>>
     ELSE IF ~Has(L, "obs") THEN <<g, CcVerdict(L, env, T)>>
     ELSE <<g, CcVerdict(L, env, T)>>
          \o Concat([j \in 1..Len(L.obs) |-> ValueVerdicts(L, L.obs[j], env, T)])
          \o AdvVerdicts(L, env, T)
          \o CrashVerdicts(L, env, T)
          \o PairVerdicts(L, env, T)

LineReport(L) ==
  LET all == LineVerdicts(L)
      extraOk == IF Has(L, "obs") /\ L.gen.st = "ok" THEN AdvOkCount(L) ELSE 0
  IN [cid |-> L.cid, n |-> Len(all) + extraOk,
      ok |-> Len(SelectSeq(all, LAMBDA r : r.verdict = "ok")) + extraOk,
      other |-> [j \in 1..Len(SelectSeq(all, LAMBDA r : r.verdict # "ok")) |->
                   LET r == SelectSeq(all, LAMBDA x : x.verdict # "ok")[j]
                   IN [vi |-> r.vi, codec |-> L.codec, ne |-> FALSE, check |-> r.check, verdict |-> r.verdict, detail |-> r.detail]]]

Emit(r) ==
  Serialize(ToJson(r) \o "\n", IOEnv.VERDICT_FILE,
            [format |-> "TXT", charset |-> "UTF-8", openOptions |-> <<"WRITE", "CREATE", "APPEND">>]).exitValue = 0

Init == i = 1
Next == /\ i <= Len(Tr)
        /\ Emit(LineReport(Tr[i]))
        /\ i' = i + 1
Spec == Init /\ [][Next]_vars

TraceAccepted == TLCGet("stats").diameter - 1 = Len(Tr)

=============================================================================
