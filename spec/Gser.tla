-------------------------------- MODULE Gser --------------------------------
(***************************************************************************)
(* RFC 3641 "Generic String Encoding Rules (GSER) for ASN.1 Types",        *)
(* section 3, one operator per production, in two directions:              *)
(*                                                                         *)
(*  (a) GserText(env, name, v, ind)  -- the text generator: the code       *)
(*      points a conforming encoder writes for v : env.types[name] in the  *)
(*      outer form `valuereference Type ::= Value` (X.680 value            *)
(*      assignment, which is what asn1tools emits around the RFC 3641      *)
(*      Value) in the compact layout (ind = -1, "indent=None") or with     *)
(*      one component per line indented by ind spaces per level.           *)
(*                                                                         *)
(*  (b) GserRead(...)  -- a type-directed reader over (text, pos): one     *)
(*      operator per production, every result is                           *)
(*         [ok |-> TRUE, v |-> value, nx |-> next position]   or           *)
(*         [ok |-> FALSE, prod |-> production, at |-> position, msg]       *)
(*      so a rejection names the production and the position.  The reader  *)
(*      accepts exactly the RFC 3641 text of the type, with any amount of  *)
(*      white-space where the grammar has sp / msp, and the caller checks  *)
(*      that the text was consumed completely.  The reader is a function   *)
(*      of the text (and the type), hence two values that are not AbsEq    *)
(*      and are both read back correctly cannot have the same text.        *)
(*                                                                         *)
(* What is accepted, explicitly (transcribed from RFC 3641 section 3):     *)
(*   sp  = *%x20, msp = 1*%x20.  In the *indented* layouts of the property *)
(*         LINE FEED (%x0A) is admitted as well, but only at the places    *)
(*         where the grammar has sp / msp (WsLf parameter of the reader;   *)
(*         the compact layout is read with the strict RFC class).          *)
(*   identifier = lowercase *alphanumeric *(hyphen 1*alphanumeric)         *)
(*   StringValue = dquote *SafeUTF8Character dquote, `""` for a quote      *)
(*   BitStringValue = bstring / hstring / bit-list (bit-list only when the *)
(*         type has named bits; hstring gives 4 bits per digit)            *)
(*   hstring: upper-case hexadecimal digits only (%x30-39 / %x41-46)       *)
(*   OctetStringValue = hstring with an even number of digits              *)
(*   BooleanValue = TRUE / FALSE,  NullValue = NULL                        *)
(*   IntegerValue = "0" / positive-number / "-" positive-number /          *)
(*         identifier (named number of the type)                           *)
(*   EnumeratedValue = identifier (an item of the type)                    *)
(*   ObjectIdentifierValue = numeric-oid (two or more components; the      *)
(*         descr form needs a registry and is not accepted)                *)
(*   RealValue = "0" / PLUS-INFINITY / MINUS-INFINITY / realnumber /       *)
(*         "-" realnumber / SequenceValue of the associated type           *)
(*         { mantissa INTEGER, base INTEGER (2|10), exponent INTEGER }     *)
(*     realnumber = mantissa exponent                                      *)
(*     mantissa = (positive-number [ "." *decimal-digit ]) /               *)
(*                ( "0." *("0") positive-number )                          *)
(*     exponent = "E" ( "0" / ([ "-" ] positive-number))                   *)
(*     There is no notation for minus zero and NaN (GRepresentable).       *)
(*   ChoiceValue = identifier ":" Value   (IdentifiedChoiceValue, no       *)
(*         white-space around the colon).  ChoiceOfStringsValue (a bare    *)
(*         StringValue for a CHOICE of string types) drops the alternative *)
(*         and therefore does not determine the value: it is not accepted. *)
(*   SequenceValue / SetValue = ComponentList =                            *)
(*         "{" [ sp NamedValue *( "," sp NamedValue) ] sp "}"              *)
(*         NamedValue = identifier msp Value; SEQUENCE components in the   *)
(*         order of the type, SET components in any order, none twice,     *)
(*         every mandatory root component present                          *)
(*   SequenceOfValue / SetOfValue = "{" [ sp Value *( "," sp Value) ] sp "}"*)
(*                                                                         *)
(* Decimal text -> IEEE double is not defined in TLA+ (DESIGN 2.2): the    *)
(* reader converts a realnumber exactly when it denotes a dyadic rational  *)
(* and otherwise (trace validation) looks the lexeme up in the table of    *)
(* float() results recorded next to the text.                              *)
(*                                                                         *)
(* Named deviations (S) the reader can be asked to tolerate, each an       *)
(* alternative definition of one production (Profile discipline):          *)
(*   DevGserChoiceColonSpaces   ChoiceValue = identifier sp ":" sp Value   *)
(*   DevGserRealPythonExponent  realnumber = python-repr "E0" where        *)
(*        python-repr = mantissa-digits "e" ("+"|"-") 2*digit              *)
(*   DevGserNoQuoteDoubling     StringValue = dquote <the characters of    *)
(*        the value verbatim> dquote -- the text no longer determines the  *)
(*        value, so this production is read *against the known value*      *)
(*        (hint h); it only answers "is this what the deviating encoder    *)
(*        writes for v".                                                   *)
(* All names defined here start with G (TypeGen, X690 ... are extended     *)
(* side by side with this module).                                         *)
(***************************************************************************)
EXTENDS Asn1Value, TLC

------------------------------------------------------------------------------
(* code points, names as code points                                        *)

GIdentAlphabet == "abcdefghijklmnopqrstuvwxyzABCDEFGHIJKLMNOPQRSTUVWXYZ0123456789-"
GCodeAt(k) == IF k <= 26 THEN 96 + k ELSE IF k <= 52 THEN 38 + k ELSE IF k <= 62 THEN k - 5 ELSE 45
GIdentIndex(c) == IF c >= 97 /\ c <= 122 THEN c - 96 ELSE IF c >= 65 /\ c <= 90 THEN c - 38
                  ELSE IF c >= 48 /\ c <= 57 THEN c + 5 ELSE 63
\* an explicit (not lazily re-evaluated) function: one-character string -> code point
GCharCode == FoldLeft(LAMBDA acc, k : acc @@ (SubSeq(GIdentAlphabet, k, k) :> GCodeAt(k)),
                      (SubSeq(GIdentAlphabet, 1, 1) :> GCodeAt(1)), [k \in 1..62 |-> k + 1])

\* name (TLC string over letters, digits, hyphen) -> code points, and back
GNameToCp(s) == Force([i \in 1..Len(s) |-> GCharCode[SubSeq(s, i, i)]])
GCpToName(tok) == FoldLeft(LAMBDA acc, c : acc \o SubSeq(GIdentAlphabet, GIdentIndex(c), GIdentIndex(c)), "", tok)

GIsLower(c) == c >= 97 /\ c <= 122
GIsUpper(c) == c >= 65 /\ c <= 90
GIsDigit(c) == c >= 48 /\ c <= 57
GIsBin(c) == c = 48 \/ c = 49
GIsHexU(c) == GIsDigit(c) \/ (c >= 65 /\ c <= 70)           \* hexadecimal-digit = %x30-39 / %x41-46
GIsIdChar(c) == GIsLower(c) \/ GIsUpper(c) \/ GIsDigit(c) \/ c = 45

GLitTrue == GNameToCp("TRUE")
GLitFalse == GNameToCp("FALSE")
GLitNull == GNameToCp("NULL")
GLitPlusInf == GNameToCp("PLUS-INFINITY")
GLitMinusInf == GNameToCp("MINUS-INFINITY")
GLitAssign == <<58, 58, 61>>                                  \* ::=

------------------------------------------------------------------------------
(* numbers: decimal digit strings <-> magnitudes (BigInt limbs)             *)

\* m * k + a   (k, a < 2^22)
GMagMulAdd(m, k, a) ==
  LET n == Len(m)
      step(st, i) == LET s == m[i] * k + st[2] IN <<(<<s % 256>>) \o st[1], s \div 256>>
      r == FoldLeft(step, <<(<<>>), a>>, [j \in 1..n |-> n + 1 - j])
  IN MagNorm(MagFromNat(r[2]) \o r[1])

\* m div k, m mod k   (k < 2^22)
GMagDivMod(m, k) ==
  LET step(st, x) == LET cur == st[2] * 256 + x IN <<Append(st[1], cur \div k), cur % k>>
      r == FoldLeft(step, <<(<<>>), 0>>, m)
  IN [q |-> MagNorm(r[1]), r |-> r[2]]

GDecToMag(ds) == FoldLeft(LAMBDA acc, d : GMagMulAdd(acc, 10, d - 48), <<>>, ds)

RECURSIVE GMagToDec(_)
GMagToDec(m) ==                      \* digits, most significant first; <<>> for zero
  IF m = <<>> THEN <<>> ELSE LET d == GMagDivMod(m, 10) IN Append(GMagToDec(d.q), 48 + d.r)

GNatToDec(n) == IF n = 0 THEN <<48>> ELSE GMagToDec(MagFromNat(n))
GDecToNat(ds) == MagToNat(GDecToMag(ds))                      \* Len(ds) <= 9

\* m * k^n and exact division by k^n (ok = FALSE when some remainder is not 0)
GMagMulPow(m, k, n) == FoldLeft(LAMBDA acc, i : GMagMulAdd(acc, k, 0), m, [i \in 1..n |-> i])
GMagDivPow(m, k, n) ==
  FoldLeft(LAMBDA acc, i : IF ~acc.ok THEN acc
                           ELSE LET d == GMagDivMod(acc.m, k) IN [ok |-> d.r = 0, m |-> d.q],
           [ok |-> TRUE, m |-> m], [i \in 1..n |-> i])

\* N = m * 2^tz with m odd   (N # 0)
GStripTwos(N) ==
  LET bits == MagToBits(N, MagBitLen(N))
      L == Len(bits)
      k == CHOOSE i \in 1..L : bits[i] = 1 /\ \A j \in (i + 1)..L : bits[j] = 0
  IN [m |-> MagFromBits(SubSeq(bits, 1, k)), tz |-> L - k]

GRealZero == [c |-> "Z", s |-> 0, m |-> <<>>, e |-> 0]
GRealPInf == [c |-> "PINF", s |-> 0, m |-> <<>>, e |-> 0]
GRealNInf == [c |-> "NINF", s |-> 0, m |-> <<>>, e |-> 0]
GRealF(neg, m, e) == [c |-> "F", s |-> IF neg THEN 1 ELSE 0, m |-> m, e |-> e]

\* the REAL value (-1)^neg * D * 10^X when it is a dyadic rational
\* (D a non-zero magnitude, X a small integer): [ok, v]
GExactDecimal(neg, D, X) ==
  IF X >= 0
  THEN LET st == GStripTwos(GMagMulPow(D, 10, X)) IN [ok |-> TRUE, v |-> GRealF(neg, st.m, st.tz)]
  ELSE LET d == GMagDivPow(D, 5, -X) IN          \* D / (2^-X * 5^-X)
       IF ~d.ok THEN [ok |-> FALSE, v |-> GRealZero]
       ELSE LET st == GStripTwos(d.m) IN [ok |-> TRUE, v |-> GRealF(neg, st.m, st.tz + X)]

------------------------------------------------------------------------------
(* (a) the text generator                                                   *)

GSpaces(k) == [i \in 1..k |-> 32]
GJoin(parts, sepcp) ==
  IF parts = <<>> THEN <<>> ELSE FoldLeft(LAMBDA acc, x : acc \o sepcp \o x, parts[1], Tail(parts))
GHexDigit(d) == IF d < 10 THEN 48 + d ELSE 55 + d

\* M: mutations of single productions, used only to show that the round-trip
\* invariant can fail (MC_Gser mutant configurations, TestGser)
GStringText(v, M) ==                                        \* 3.2 StringValue
  IF ~\E i \in 1..Len(v) : v[i] = 34 THEN <<34>> \o v \o <<34>>
  ELSE <<34>> \o Concat([i \in 1..Len(v) |-> IF v[i] = 34 /\ "MutNoQuoteDoubling" \notin M THEN <<34, 34>> ELSE <<v[i]>>]) \o <<34>>

GBitStringText(v, M) ==                                     \* 3.3 bstring
  LET n == IF "MutBitsPadToOctet" \in M THEN 8 * Len(v.b) ELSE v.n
      all == BytesToBits(v.b)
  IN <<39>> \o [i \in 1..n |-> 48 + all[i]] \o <<39, 66>>

GOctetStringText(v, M) ==                                   \* 3.9 hstring
  LET hd(d) == IF "MutHexLowerCase" \in M /\ d >= 10 THEN 87 + d ELSE GHexDigit(d)
  IN <<39>> \o Concat([i \in 1..Len(v) |-> <<hd(v[i] \div 16), hd(v[i] % 16)>>]) \o <<39, 72>>

GIntegerText(v) ==                                          \* 3.6
  IF IsZero(v) THEN <<48>> ELSE (IF v.neg THEN <<45>> ELSE <<>>) \o GMagToDec(v.mag)

GOidText(v) == GJoin([i \in 1..Len(v) |-> GNatToDec(v[i])], <<46>>)      \* 3.8 numeric-oid

\* the type RFC 3641 3.17 associates with the SequenceValue form of a RealValue
GRealSeqType ==
  LET int == [k |-> "INT", tags |-> <<>>, con |-> [f |-> "N"], nn |-> <<>>]
      mem(n) == [n |-> n, t |-> int, q |-> "M", d |-> "NULL"]
  IN [k |-> "SEQ", tags |-> <<>>, root |-> <<mem("mantissa"), mem("base"), mem("exponent")>>,
      ext |-> FALSE, adds |-> <<>>]

\* 3.17: realnumber in scientific form for moderate exponents (exact decimal
\* expansion of m * 2^e), otherwise the base-2 SequenceValue form
GRealUsesDecimal(v) == v.c = "F" /\ v.e >= -64 /\ v.e <= 64
GRealNumberText(v) ==
  LET D == IF v.e >= 0 THEN GMagMulPow(v.m, 2, v.e) ELSE GMagMulPow(v.m, 5, -v.e)
      X == IF v.e >= 0 THEN 0 ELSE v.e
      ds == GMagToDec(D)
      X2 == X + Len(ds) - 1
  IN (IF v.s = 1 THEN <<45>> ELSE <<>>) \o <<ds[1]>> \o (IF Len(ds) > 1 THEN <<46>> \o Tail(ds) ELSE <<>>)
     \o <<69>> \o (IF X2 < 0 THEN <<45>> \o GNatToDec(-X2) ELSE GNatToDec(X2))
GRealSeqValue(v) ==
  [mantissa |-> Present(Mk(v.s = 1, v.m)), base |-> Present(FromInt(2)), exponent |-> Present(FromInt(v.e))]

RECURSIVE GValueText(_, _, _, _, _, _)
\* sep: what separates the items of the enclosing list (" " or LF + indentation)
GValueText(env, T, v, sep, step, M) ==
  CASE T.k = "REF" -> GValueText(env, env.types[T.name], v, sep, step, M)
    [] T.k = "BOOL" -> IF v THEN GLitTrue ELSE GLitFalse                        \* 3.4
    [] T.k = "NULL" -> GLitNull                                                 \* 3.7
    [] T.k = "INT" -> GIntegerText(v)
    [] T.k = "ENUM" -> GNameToCp(v)                                             \* 3.5
    [] T.k = "BITS" -> GBitStringText(v, M)
    [] T.k = "OCTS" -> GOctetStringText(v, M)
    [] T.k = "STR" -> GStringText(v, M)
    [] T.k = "OID" -> GOidText(v)
    [] T.k = "REAL" ->
         (CASE v.c = "Z" -> <<48>>
            [] v.c = "PINF" -> GLitPlusInf
            [] v.c = "NINF" -> GLitMinusInf
            [] v.c = "F" -> IF GRealUsesDecimal(v) THEN GRealNumberText(v)
                            ELSE GValueText(env, GRealSeqType, GRealSeqValue(v), sep, step, M))
    [] T.k \in {"SEQ", "SET"} ->                                                \* 3.11 ComponentList
         LET ms == AllMembers(T)
             msep == sep \o GSpaces(step)
             one(i) == IF v[ms[i].n].p
                       THEN << msep \o GNameToCp(ms[i].n) \o <<32>> \o GValueText(env, ms[i].t, v[ms[i].n].v, msep, step, M) >>
                       ELSE <<>>
             parts == Concat([i \in 1..Len(ms) |-> one(i)])
             comma == IF "MutDropCommaWhenIndented" \in M /\ sep # <<32>> THEN <<>> ELSE <<44>>
         IN <<123>> \o GJoin(parts, comma) \o sep \o <<125>>
    [] T.k = "CHOICE" ->                                                        \* 3.10 IdentifiedChoiceValue
         LET alts == AllAlts(T)
             a == alts[MemberIndex(alts, v.a)]
             colon == IF "MutNoColonInNestedChoice" \in M /\ Base(env, a.t).k = "CHOICE" THEN <<32>> ELSE <<58>>
         IN GNameToCp(v.a) \o colon \o GValueText(env, a.t, v.v, sep, step, M)
    [] T.k \in {"SEQOF", "SETOF"} ->                                            \* 3.12
         LET esep == sep \o GSpaces(step)
             parts == [i \in 1..Len(v) |-> esep \o GValueText(env, T.e, v[i], esep, step, M)]
         IN <<123>> \o GJoin(parts, <<44>>) \o sep \o <<125>>

GLower(cps) == [i \in 1..Len(cps) |-> IF GIsUpper(cps[i]) THEN cps[i] + 32 ELSE cps[i]]

\* the outer form: valuereference Type "::=" Value; ind = -1: compact layout
GserTextM(env, name, v, ind, M) ==
  LET nm == GNameToCp(name)
      sep == IF ind < 0 THEN <<32>> ELSE <<10>>
      step == IF ind < 0 THEN 0 ELSE ind
  IN GLower(nm) \o <<32>> \o nm \o <<32>> \o GLitAssign \o <<32>> \o GValueText(env, env.types[name], v, sep, step, M)

GserText(env, name, v, ind) == GserTextM(env, name, v, ind, {})

------------------------------------------------------------------------------
(* values without a GSER notation, input classes, relevant deviations        *)

RECURSIVE GLeaves(_, _, _)
GLeaves(env, T, v) ==                \* all leaves <<base type, value>> of v : T
  CASE T.k = "REF" -> GLeaves(env, env.types[T.name], v)
    [] T.k \in {"SEQ", "SET"} ->
         Concat([j \in 1..Len(AllMembers(T)) |->
            LET m == AllMembers(T)[j] IN IF v[m.n].p THEN GLeaves(env, m.t, v[m.n].v) ELSE <<>>])
    [] T.k = "CHOICE" -> LET alts == AllAlts(T) IN GLeaves(env, alts[MemberIndex(alts, v.a)].t, v.v)
    [] T.k \in {"SEQOF", "SETOF"} -> Concat([j \in 1..Len(v) |-> GLeaves(env, T.e, v[j])])
    [] OTHER -> << <<T, v>> >>

RECURSIVE GNodes(_, _, _)
GNodes(env, T, v) ==                 \* all SEQUENCE / SET / CHOICE nodes <<type, value>> inside v : T
  CASE T.k = "REF" -> GNodes(env, env.types[T.name], v)
    [] T.k \in {"SEQ", "SET"} ->
         << <<T, v>> >> \o Concat([j \in 1..Len(AllMembers(T)) |->
            LET m == AllMembers(T)[j] IN IF v[m.n].p THEN GNodes(env, m.t, v[m.n].v) ELSE <<>>])
    [] T.k = "CHOICE" -> << <<T, v>> >> \o (LET alts == AllAlts(T) IN GNodes(env, alts[MemberIndex(alts, v.a)].t, v.v))
    [] T.k \in {"SEQOF", "SETOF"} -> Concat([j \in 1..Len(v) |-> GNodes(env, T.e, v[j])])
    [] OTHER -> <<>>

GAnyLeaf(env, T, v, P(_, _)) == LET ls == GLeaves(env, T, v) IN \E j \in 1..Len(ls) : P(ls[j][1], ls[j][2])
GAnyNode(env, T, v, P(_, _)) == LET ns == GNodes(env, T, v) IN \E j \in 1..Len(ns) : P(ns[j][1], ns[j][2])

\* RFC 3641 3.17 has no notation for minus zero and NaN
GRepresentable(env, T, v) == ~GAnyLeaf(env, T, v, LAMBDA t, x : t.k = "REAL" /\ x.c \in {"NZ", "NAN"})

GserDevs == <<"DevGserChoiceColonSpaces", "DevGserRealPythonExponent", "DevGserNoQuoteDoubling">>

\* the deviations whose production is reached at all when reading v : T
GRelevantDevs(env, T, v) ==
  (IF GAnyNode(env, T, v, LAMBDA t, x : t.k = "CHOICE") THEN {"DevGserChoiceColonSpaces"} ELSE {})
  \cup (IF GAnyLeaf(env, T, v, LAMBDA t, x : t.k = "REAL" /\ x.c = "F") THEN {"DevGserRealPythonExponent"} ELSE {})
  \cup (IF GAnyLeaf(env, T, v, LAMBDA t, x : t.k = "STR" /\ \E i \in 1..Len(x) : x[i] = 34) THEN {"DevGserNoQuoteDoubling"} ELSE {})

\* non-empty subsets of the relevant deviations, smallest first (as a sequence)
GDevCandidates(rel) ==
  LET ds == SelectSeq(GserDevs, LAMBDA d : d \in rel)
      n == Len(ds)
      singles == [j \in 1..n |-> {ds[j]}]
      pairs == Concat([a \in 1..n |-> [b \in 1..(n - a) |-> {ds[a], ds[a + b]}]])
      allOf == IF n > 2 THEN <<{ds[j] : j \in 1..n}>> ELSE <<>>
  IN singles \o pairs \o allOf

\* input classes of known findings (predicates over the value, DESIGN 2.3)
GserClasses == <<"GserEmptyBitString", "GserAbsentMandatoryAddition", "GserAbsentNullDefault", "GserRealMinusZero">>

GClassHolds(name, env, T, v) ==
  CASE name = "GserEmptyBitString" -> GAnyLeaf(env, T, v, LAMBDA t, x : t.k = "BITS" /\ x.n = 0)
    [] name = "GserRealMinusZero" -> GAnyLeaf(env, T, v, LAMBDA t, x : t.k = "REAL" /\ x.c = "NZ")
    [] name = "GserAbsentMandatoryAddition" ->
         GAnyNode(env, T, v, LAMBDA t, x : t.k \in {"SEQ", "SET"} /\
            \E i \in (Len(t.root) + 1)..Len(AllMembers(t)) : AllMembers(t)[i].q = "M" /\ ~x[AllMembers(t)[i].n].p)
    [] name = "GserAbsentNullDefault" ->
         GAnyNode(env, T, v, LAMBDA t, x : t.k \in {"SEQ", "SET"} /\
            \E i \in 1..Len(AllMembers(t)) : LET m == AllMembers(t)[i] IN m.q = "D" /\ ~x[m.n].p /\ Base(env, m.t).k = "NULL")

------------------------------------------------------------------------------
(* (b) the reader                                                           *)

GOk(v, nx) == [ok |-> TRUE, v |-> v, nx |-> nx]
GFail(prod, at, msg) == [ok |-> FALSE, prod |-> prod, at |-> at, msg |-> msg]

\* the lexical context of one text: the text, which characters are white-space,
\* the deviations in force, the recorded float() table
GLex(t, wsLf, S, reals) == [t |-> t, n |-> Len(t), S |-> S, reals |-> reals, wsLf |-> wsLf]

\* first position q >= p whose character is not in the class (cx.n + 1 if none);
\* SelectInSeq is evaluated by a Java loop, so runs may be long
GRunEnd(cx, p, InC(_)) ==
  LET k == SelectInSeq(SubSeq(cx.t, p, cx.n), LAMBDA c : ~InC(c))
  IN IF k = 0 THEN cx.n + 1 ELSE p + k - 1

GCh(cx, p) == IF p >= 1 /\ p <= cx.n THEN cx.t[p] ELSE -1           \* -1: end of text
GIsWs(cx, c) == c = 32 \/ (cx.wsLf /\ c = 10)
GSp(cx, p) == IF ~GIsWs(cx, GCh(cx, p)) THEN p ELSE GRunEnd(cx, p, LAMBDA c : GIsWs(cx, c))   \* sp: skip zero or more
GLit(cx, p, lit) == p + Len(lit) - 1 <= cx.n /\ SubSeq(cx.t, p, p + Len(lit) - 1) = lit

GNoHint == [has |-> FALSE, v |-> "NULL"]
GHint(v) == [has |-> TRUE, v |-> v]

\* identifier = lowercase *alphanumeric *(hyphen 1*alphanumeric)
GReadIdentifier(cx, p) ==
  LET q == GRunEnd(cx, p, GIsIdChar)
      tok == SubSeq(cx.t, p, q - 1)
  IN IF q = p THEN GFail("identifier", p, "an identifier is expected")
     ELSE IF ~GIsLower(tok[1]) THEN GFail("identifier", p, "an identifier starts with a lower-case letter")
     ELSE IF tok[Len(tok)] = 45 THEN GFail("identifier", q - 1, "an identifier does not end with a hyphen")
     ELSE IF \E i \in 1..(Len(tok) - 1) : tok[i] = 45 /\ tok[i + 1] = 45
          THEN GFail("identifier", p, "two hyphens in a row")
     ELSE GOk(GCpToName(tok), q)

\* "0" / positive-number as a digit string (positive-number = non-zero-digit *decimal-digit)
GReadNumber(cx, p) ==
  LET q == GRunEnd(cx, p, GIsDigit)
  IN IF q = p THEN GFail("number", p, "a decimal digit is expected")
     ELSE IF cx.t[p] = 48 /\ q > p + 1 THEN GFail("number", p, "leading zero")
     ELSE GOk(SubSeq(cx.t, p, q - 1), q)

GReadBooleanValue(cx, p) ==                                                  \* 3.4
  IF GLit(cx, p, GLitTrue) THEN GOk(TRUE, p + 4)
  ELSE IF GLit(cx, p, GLitFalse) THEN GOk(FALSE, p + 5)
  ELSE GFail("BooleanValue", p, "TRUE or FALSE is expected")

GReadNullValue(cx, p) ==                                                     \* 3.7
  IF GLit(cx, p, GLitNull) THEN GOk("NULL", p + 4) ELSE GFail("NullValue", p, "NULL is expected")

GReadIntegerValue(cx, T, p) ==                                               \* 3.6
  LET c == GCh(cx, p) IN
  IF c = 45
  THEN LET r == GReadNumber(cx, p + 1) IN
       IF ~r.ok THEN GFail("IntegerValue", r.at, r.msg)
       ELSE IF r.v = <<48>> THEN GFail("IntegerValue", p, "-0 is not an IntegerValue")
       ELSE GOk(Mk(TRUE, GDecToMag(r.v)), r.nx)
  ELSE IF GIsDigit(c)
  THEN LET r == GReadNumber(cx, p) IN
       IF ~r.ok THEN GFail("IntegerValue", r.at, r.msg) ELSE GOk(Mk(FALSE, GDecToMag(r.v)), r.nx)
  ELSE IF GIsLower(c) /\ T.nn # <<>>
  THEN LET id == GReadIdentifier(cx, p) IN
       IF ~id.ok THEN id
       ELSE IF ~\E i \in 1..Len(T.nn) : T.nn[i].n = id.v THEN GFail("IntegerValue", p, "not a named number of the type: " \o id.v)
       ELSE GOk(T.nn[CHOOSE i \in 1..Len(T.nn) : T.nn[i].n = id.v].v, id.nx)
  ELSE GFail("IntegerValue", p, "a number is expected")

GReadEnumeratedValue(cx, T, p) ==                                            \* 3.5
  LET id == GReadIdentifier(cx, p) IN
  IF ~id.ok THEN GFail("EnumeratedValue", id.at, id.msg)
  ELSE IF ~HasMember(AllAlts(T), id.v) THEN GFail("EnumeratedValue", p, "not an item of the type: " \o id.v)
  ELSE GOk(id.v, id.nx)

\* 3.2 StringValue: the part after the opening quote, from p
RECURSIVE GStringBody(_, _)
GStringBody(cx, p) ==
  LET a == GRunEnd(cx, p, LAMBDA c : c # 34)     \* the next quote
  IN IF a > cx.n THEN GFail("StringValue", p, "unterminated string")
     ELSE LET b == GRunEnd(cx, a, LAMBDA c : c = 34)   \* end of the run of quotes
              L == b - a
              plain == SubSeq(cx.t, p, a - 1) \o [i \in 1..(L \div 2) |-> 34]
          IN IF L % 2 = 1 THEN GOk(plain, b)                   \* pairs, then the closing quote
             ELSE LET r == GStringBody(cx, b) IN IF ~r.ok THEN r ELSE GOk(plain \o r.v, r.nx)

GReadStringValue(cx, p, h) ==
  IF GCh(cx, p) # 34 THEN GFail("StringValue", p, "an opening quote is expected")
  ELSE IF "DevGserNoQuoteDoubling" \in cx.S /\ h.has
  THEN LET L == Len(h.v) IN
       IF p + L + 1 <= cx.n /\ SubSeq(cx.t, p + 1, p + L) = h.v /\ cx.t[p + L + 1] = 34 THEN GOk(h.v, p + L + 2)
       ELSE GFail("StringValue/DevGserNoQuoteDoubling", p, "not the characters of the value between quotes")
  ELSE GStringBody(cx, p + 1)

\* 3.3 hstring / bstring: the digits between the quotes and the letter
GReadQuoted(cx, p) ==
  IF GCh(cx, p) # 39 THEN GFail("hstring/bstring", p, "an opening apostrophe is expected")
  ELSE LET qb == GRunEnd(cx, p + 1, GIsBin)
           qh == GRunEnd(cx, p + 1, GIsHexU)
       IN IF GCh(cx, qb) = 39 /\ GCh(cx, qb + 1) = 66 THEN [ok |-> TRUE, kind |-> "B", ds |-> SubSeq(cx.t, p + 1, qb - 1), nx |-> qb + 2]
          ELSE IF GCh(cx, qh) = 39 /\ GCh(cx, qh + 1) = 72 THEN [ok |-> TRUE, kind |-> "H", ds |-> SubSeq(cx.t, p + 1, qh - 1), nx |-> qh + 2]
          ELSE IF GCh(cx, qh) = 39 THEN GFail("hstring/bstring", qh + 1, "B or H is expected after the closing apostrophe")
          ELSE GFail("hstring/bstring", qh, "a binary / upper-case hexadecimal digit or the closing apostrophe is expected")

GHexVal(c) == IF GIsDigit(c) THEN c - 48 ELSE c - 55
GMkBits(bits) == [n |-> Len(bits), b |-> BitsToBytes(bits)]

RECURSIVE GReadBitList(_, _, _, _)
\* bit-list = "{" [ sp identifier *( "," sp identifier ) ] sp "}" ; p at an identifier
GReadBitList(cx, T, p, acc) ==
  LET id == GReadIdentifier(cx, p) IN
  IF ~id.ok THEN GFail("bit-list", id.at, id.msg)
  ELSE IF ~\E i \in 1..Len(T.nb) : T.nb[i].n = id.v THEN GFail("bit-list", p, "not a named bit of the type: " \o id.v)
  ELSE LET b == T.nb[CHOOSE i \in 1..Len(T.nb) : T.nb[i].n = id.v].v
           acc2 == Append(acc, b)
       IN IF GCh(cx, id.nx) = 44 THEN GReadBitList(cx, T, GSp(cx, id.nx + 1), acc2)
          ELSE LET e == GSp(cx, id.nx) IN
               IF GCh(cx, e) = 125 THEN GOk(acc2, e + 1) ELSE GFail("bit-list", e, "`,` or `}` is expected")

GReadBitStringValue(cx, T, p) ==                                             \* 3.3
  IF GCh(cx, p) = 123
  THEN IF T.nb = <<>> THEN GFail("BitStringValue", p, "bit-list for a type without named bits")
       ELSE LET p1 == GSp(cx, p + 1)
                r == IF GCh(cx, p1) = 125 THEN GOk(<<>>, p1 + 1) ELSE GReadBitList(cx, T, p1, <<>>)
            IN IF ~r.ok THEN r
               ELSE LET hi == IF r.v = <<>> THEN -1 ELSE CHOOSE x \in {r.v[i] : i \in 1..Len(r.v)} : \A i \in 1..Len(r.v) : r.v[i] <= x
                    IN GOk(GMkBits([i \in 1..(hi + 1) |-> IF \E j \in 1..Len(r.v) : r.v[j] = i - 1 THEN 1 ELSE 0]), r.nx)
  ELSE LET r == GReadQuoted(cx, p) IN
       IF ~r.ok THEN GFail("BitStringValue", r.at, r.msg)
       ELSE IF r.kind = "B" THEN GOk(GMkBits([i \in 1..Len(r.ds) |-> r.ds[i] - 48]), r.nx)
       ELSE GOk(GMkBits(Concat([i \in 1..Len(r.ds) |-> NatToBits(GHexVal(r.ds[i]), 4)])), r.nx)

GReadOctetStringValue(cx, p) ==                                              \* 3.9
  LET r == GReadQuoted(cx, p) IN
  IF ~r.ok THEN GFail("OctetStringValue", r.at, r.msg)
  ELSE IF r.kind # "H" THEN GFail("OctetStringValue", p, "an hstring is expected")
  ELSE IF Len(r.ds) % 2 = 1 THEN GFail("OctetStringValue", p, "odd number of hexadecimal digits")
  ELSE GOk([j \in 1..(Len(r.ds) \div 2) |-> 16 * GHexVal(r.ds[2 * j - 1]) + GHexVal(r.ds[2 * j])], r.nx)

\* 3.8 numeric-oid = oid-component 1*( "." oid-component )
RECURSIVE GReadOidComponents(_, _, _)
GReadOidComponents(cx, p, acc) ==
  LET r == GReadNumber(cx, p) IN
  IF ~r.ok THEN GFail("ObjectIdentifierValue", r.at, r.msg)
  ELSE IF Len(r.v) > 9 THEN GFail("ObjectIdentifierValue", p, "component beyond the model's integers")
  ELSE LET acc2 == Append(acc, GDecToNat(r.v)) IN
       IF GCh(cx, r.nx) = 46 THEN GReadOidComponents(cx, r.nx + 1, acc2)
       ELSE IF Len(acc2) < 2 THEN GFail("ObjectIdentifierValue", r.nx, "a numeric-oid has at least two components")
       ELSE GOk(acc2, r.nx)

\* the float() record for the lexeme [from, to) if the trace carries one
GRealLookup(cx, from, to) ==
  LET runs == SelectSeq(cx.reals, LAMBDA r : r.s = from)
      hits == IF runs = <<>> THEN <<>> ELSE SelectSeq(runs[1].pre, LAMBDA e : e.e = to)
  IN IF hits = <<>> THEN [ok |-> FALSE, v |-> GRealZero] ELSE [ok |-> TRUE, v |-> hits[1].v]

\* a decimal lexeme -> REAL: the recorded float() result, else exact conversion
GRealOfDecimal(cx, prod, from, to, neg, digits, X) ==
  LET lk == GRealLookup(cx, from, to) IN
  IF lk.ok THEN GOk(lk.v, to)
  ELSE LET D == GDecToMag(digits) IN
       IF X > 1100 \/ X < -1100 \/ Len(digits) > 800 THEN GFail(prod, from, "number beyond the model and no float() record")
       ELSE LET ex == GExactDecimal(neg, D, X) IN
            IF ex.ok THEN GOk(ex.v, to)
            ELSE GFail(prod, from, "not a dyadic rational and no float() record for this lexeme")

\* 3.17 realnumber = mantissa exponent, p0: start of the lexeme (the sign), p: first digit
GReadRealNumber(cx, p0, neg, p) ==
  LET ipEnd == GRunEnd(cx, p, GIsDigit)
      ip == SubSeq(cx.t, p, ipEnd - 1)
      hasDot == GCh(cx, ipEnd) = 46
      fpEnd == IF hasDot THEN GRunEnd(cx, ipEnd + 1, GIsDigit) ELSE ipEnd
      fp == IF hasDot THEN SubSeq(cx.t, ipEnd + 1, fpEnd - 1) ELSE <<>>
      mantOk == IF ip[1] = 48 THEN Len(ip) = 1 /\ hasDot /\ \E i \in 1..Len(fp) : fp[i] # 48     \* "0." *("0") positive-number
                ELSE TRUE                                                                      \* positive-number [ "." *decimal-digit ]
      digits == ip \o fp
  IN IF ~mantOk THEN GFail("realnumber", p, "mantissa = (positive-number [. *digit]) / (0. *0 positive-number)")
     ELSE IF GCh(cx, fpEnd) = 69
     THEN LET xneg == GCh(cx, fpEnd + 1) = 45
              xr == GReadNumber(cx, IF xneg THEN fpEnd + 2 ELSE fpEnd + 1)
          IN IF ~xr.ok THEN GFail("realnumber", xr.at, "exponent: " \o xr.msg)
             ELSE IF xneg /\ xr.v = <<48>> THEN GFail("realnumber", fpEnd + 1, "exponent -0")
             ELSE IF Len(xr.v) > 4 THEN GFail("realnumber", fpEnd + 1, "exponent beyond the model")
             ELSE LET x == GDecToNat(xr.v)
                  IN GRealOfDecimal(cx, "realnumber", p0, xr.nx, neg, digits, (IF xneg THEN -x ELSE x) - Len(fp))
     ELSE IF "DevGserRealPythonExponent" \in cx.S /\ GCh(cx, fpEnd) = 101 /\ GCh(cx, fpEnd + 1) \in {43, 45}
     THEN \* python repr: digits [. digits] e (+|-) 2*digit, followed by the constant exponent E0
          LET xneg == GCh(cx, fpEnd + 1) = 45
              xEnd == GRunEnd(cx, fpEnd + 2, GIsDigit)
              xd == SubSeq(cx.t, fpEnd + 2, xEnd - 1)
          IN IF Len(xd) < 2 \/ Len(xd) > 4 THEN GFail("realnumber/DevGserRealPythonExponent", fpEnd + 2, "two or more exponent digits are expected")
             ELSE IF ~(GCh(cx, xEnd) = 69 /\ GCh(cx, xEnd + 1) = 48) THEN GFail("realnumber/DevGserRealPythonExponent", xEnd, "E0 is expected")
             ELSE LET x == GDecToNat(xd)
                      r == GRealOfDecimal(cx, "realnumber/DevGserRealPythonExponent", p0, xEnd, neg, digits, (IF xneg THEN -x ELSE x) - Len(fp))
                  IN IF r.ok THEN GOk(r.v, xEnd + 2) ELSE r
     ELSE GFail("realnumber", fpEnd, "exponent (E) is expected")

RECURSIVE GReadValue(_, _, _, _, _), GReadNamedValues(_, _, _, _, _, _, _), GReadComponentList(_, _, _, _, _),
          GReadValues(_, _, _, _, _, _), GReadChoiceValue(_, _, _, _, _), GReadRealValue(_, _, _)

\* NamedValue *( "," sp NamedValue ) sp "}" ; p at the identifier of a NamedValue;
\* result v: sequence of [i |-> member index, v |-> value]
GReadNamedValues(cx, env, T, p, last, acc, h) ==
  LET ms == AllMembers(T)
      id == GReadIdentifier(cx, p)
  IN IF ~id.ok THEN GFail("NamedValue", id.at, id.msg)
     ELSE IF ~HasMember(ms, id.v) THEN GFail("NamedValue", p, "not a component of the type: " \o id.v)
     ELSE LET i == MemberIndex(ms, id.v) IN
     IF T.k = "SEQ" /\ i <= last THEN GFail("SequenceValue", p, "component repeated or out of order: " \o id.v)
     ELSE IF \E j \in 1..Len(acc) : acc[j].i = i THEN GFail("SetValue", p, "component repeated: " \o id.v)
     ELSE LET q == GSp(cx, id.nx) IN
     IF q = id.nx THEN GFail("NamedValue", q, "msp is expected after the identifier")
     ELSE LET hm == IF h.has /\ h.v[id.v].p THEN GHint(h.v[id.v].v) ELSE GNoHint
              r == GReadValue(cx, env, ms[i].t, q, hm)
          IN IF ~r.ok THEN r
             ELSE LET acc2 == Append(acc, [i |-> i, v |-> r.v]) IN
                  IF GCh(cx, r.nx) = 44 THEN GReadNamedValues(cx, env, T, GSp(cx, r.nx + 1), i, acc2, h)
                  ELSE LET e == GSp(cx, r.nx) IN
                       IF GCh(cx, e) = 125 THEN GOk(acc2, e + 1)
                       ELSE GFail("ComponentList", e, "`,` or `}` is expected")

\* 3.11 ComponentList = "{" [ sp NamedValue *( "," sp NamedValue) ] sp "}"
GReadComponentList(cx, env, T, p, h) ==
  IF GCh(cx, p) # 123 THEN GFail("ComponentList", p, "`{` is expected")
  ELSE LET p1 == GSp(cx, p + 1)
           r == IF GCh(cx, p1) = 125 THEN GOk(<<>>, p1 + 1) ELSE GReadNamedValues(cx, env, T, p1, 0, <<>>, h)
       IN IF ~r.ok THEN r
          ELSE LET ms == AllMembers(T)
                   got(i) == \E j \in 1..Len(r.v) : r.v[j].i = i
                   missing == {i \in 1..Len(T.root) : ms[i].q = "M" /\ ~got(i)}
               IN IF missing # {} THEN GFail(IF T.k = "SEQ" THEN "SequenceValue" ELSE "SetValue", p,
                                             "mandatory component missing: " \o ms[CHOOSE i \in missing : TRUE].n)
                  ELSE GOk([nm \in {ms[i].n : i \in 1..Len(ms)} |->
                              LET i == MemberIndex(ms, nm) IN
                              IF got(i) THEN Present(r.v[CHOOSE j \in 1..Len(r.v) : r.v[j].i = i].v) ELSE Absent],
                           r.nx)

\* Value *( "," sp Value ) sp "}" ; p at a Value
GReadValues(cx, env, ET, p, acc, h) ==
  LET k == Len(acc) + 1
      he == IF h.has /\ k <= Len(h.v) THEN GHint(h.v[k]) ELSE GNoHint
      r == GReadValue(cx, env, ET, p, he)
  IN IF ~r.ok THEN r
     ELSE LET acc2 == Append(acc, r.v) IN
          IF GCh(cx, r.nx) = 44 THEN GReadValues(cx, env, ET, GSp(cx, r.nx + 1), acc2, h)
          ELSE LET e == GSp(cx, r.nx) IN
               IF GCh(cx, e) = 125 THEN GOk(acc2, e + 1)
               ELSE GFail("SequenceOfValue", e, "`,` or `}` is expected")

\* 3.10 IdentifiedChoiceValue = identifier ":" Value
GReadChoiceValue(cx, env, T, p, h) ==
  LET id == GReadIdentifier(cx, p) IN
  IF ~id.ok THEN GFail("ChoiceValue", id.at, id.msg)
  ELSE IF ~HasMember(AllAlts(T), id.v) THEN GFail("ChoiceValue", p, "not an alternative of the type: " \o id.v)
  ELSE LET loose == "DevGserChoiceColonSpaces" \in cx.S
           c == IF loose THEN GSp(cx, id.nx) ELSE id.nx
       IN IF GCh(cx, c) # 58 THEN GFail("ChoiceValue", c, "`:` is expected immediately after the identifier")
          ELSE LET q == IF loose THEN GSp(cx, c + 1) ELSE c + 1
                   alts == AllAlts(T)
                   hv == IF h.has /\ h.v.a = id.v THEN GHint(h.v.v) ELSE GNoHint
                   r == GReadValue(cx, env, alts[MemberIndex(alts, id.v)].t, q, hv)
               IN IF ~r.ok THEN r ELSE GOk([a |-> id.v, v |-> r.v], r.nx)

\* 3.17 RealValue
GReadRealValue(cx, env, p) ==
  LET c == GCh(cx, p) IN
  IF c = 123
  THEN LET r == GReadComponentList(cx, env, GRealSeqType, p, GNoHint) IN
       IF ~r.ok THEN r
       ELSE LET man == r.v["mantissa"].v  bas == r.v["base"].v  ex == r.v["exponent"].v IN
            IF IsZero(man) THEN GFail("RealValue", p, "the SequenceValue form is for non-zero values")
            ELSE IF ~(Eq(bas, FromInt(2)) \/ Eq(bas, FromInt(10))) THEN GFail("RealValue", p, "base 2 or 10 is expected")
            ELSE IF ~FitsInt(ex) THEN GFail("RealValue", p, "exponent beyond the model")
            ELSE IF Eq(bas, FromInt(2))
                 THEN LET st == GStripTwos(man.mag) IN GOk(GRealF(man.neg, st.m, st.tz + ToInt(ex)), r.nx)
                 ELSE IF ToInt(ex) > 1100 \/ ToInt(ex) < -1100 THEN GFail("RealValue", p, "exponent beyond the model")
                      ELSE LET d == GExactDecimal(man.neg, man.mag, ToInt(ex)) IN
                           IF d.ok THEN GOk(d.v, r.nx) ELSE GFail("RealValue", p, "base 10 value that is not a dyadic rational")
  ELSE IF GLit(cx, p, GLitPlusInf) THEN GOk(GRealPInf, p + 13)
  ELSE IF GLit(cx, p, GLitMinusInf) THEN GOk(GRealNInf, p + 14)
  ELSE LET neg == c = 45
           p1 == IF neg THEN p + 1 ELSE p
           c1 == GCh(cx, p1)
       IN IF ~GIsDigit(c1) THEN GFail("RealValue", p, "0, PLUS-INFINITY, MINUS-INFINITY, a realnumber or `{` is expected")
          ELSE IF c1 = 48 /\ GCh(cx, p1 + 1) # 46
               THEN (IF neg THEN GFail("RealValue", p, "-0 is not a RealValue") ELSE GOk(GRealZero, p1 + 1))
          ELSE GReadRealNumber(cx, p, neg, p1)

\* Value of type T at p
GReadValue(cx, env, T, p, h) ==
  CASE T.k = "REF" -> GReadValue(cx, env, env.types[T.name], p, h)
    [] T.k = "BOOL" -> GReadBooleanValue(cx, p)
    [] T.k = "NULL" -> GReadNullValue(cx, p)
    [] T.k = "INT" -> GReadIntegerValue(cx, T, p)
    [] T.k = "ENUM" -> GReadEnumeratedValue(cx, T, p)
    [] T.k = "BITS" -> GReadBitStringValue(cx, T, p)
    [] T.k = "OCTS" -> GReadOctetStringValue(cx, p)
    [] T.k = "STR" -> GReadStringValue(cx, p, h)
    [] T.k = "OID" -> GReadOidComponents(cx, p, <<>>)
    [] T.k = "REAL" -> GReadRealValue(cx, env, p)
    [] T.k \in {"SEQ", "SET"} -> GReadComponentList(cx, env, T, p, h)
    [] T.k = "CHOICE" -> GReadChoiceValue(cx, env, T, p, h)
    [] T.k \in {"SEQOF", "SETOF"} ->
         IF GCh(cx, p) # 123 THEN GFail("SequenceOfValue", p, "`{` is expected")
         ELSE LET p1 == GSp(cx, p + 1) IN
              IF GCh(cx, p1) = 125 THEN GOk(<<>>, p1 + 1) ELSE GReadValues(cx, env, T.e, p1, <<>>, h)

\* typereference: like an identifier but starting with an upper-case letter
GReadTypeReference(cx, p) ==
  LET q == GRunEnd(cx, p, GIsIdChar)
      tok == SubSeq(cx.t, p, q - 1)
  IN IF q = p \/ ~GIsUpper(tok[1]) THEN GFail("typereference", p, "a type reference is expected")
     ELSE IF tok[Len(tok)] = 45 \/ \E i \in 1..(Len(tok) - 1) : tok[i] = 45 /\ tok[i + 1] = 45
          THEN GFail("typereference", p, "hyphen at the end or two hyphens in a row")
     ELSE GOk(GCpToName(tok), q)

\* the outer form: valuereference msp typereference msp "::=" msp Value  (X.680 16.2)
GReadAssignment(cx, env, name, written, h) ==
  LET vr == GReadIdentifier(cx, 1) IN
  IF ~vr.ok THEN GFail("valuereference", vr.at, vr.msg)
  ELSE LET p2 == GSp(cx, vr.nx) IN
  IF p2 = vr.nx THEN GFail("ValueAssignment", p2, "white-space is expected after the value reference")
  ELSE LET tr == GReadTypeReference(cx, p2) IN
  IF ~tr.ok THEN tr
  ELSE IF tr.v # written THEN GFail("ValueAssignment", p2, "type reference is not the type's name " \o written)
  ELSE LET p3 == GSp(cx, tr.nx) IN
  IF p3 = tr.nx \/ ~GLit(cx, p3, GLitAssign) THEN GFail("ValueAssignment", p3, "` ::= ` is expected")
  ELSE LET p4 == GSp(cx, p3 + 3) IN
  IF p4 = p3 + 3 THEN GFail("ValueAssignment", p4, "white-space is expected after ::=")
  ELSE LET r == GReadValue(cx, env, env.types[name], p4, h) IN
       IF ~r.ok THEN r
       ELSE IF r.nx # cx.n + 1 THEN GFail("ValueAssignment", r.nx, "text after the end of the value")
       ELSE r

\* read a complete text for v's type.  name: the type in env; written: the name
\* it carries in the text; wsLf: LINE FEED counts as white-space (indented layouts);
\* S: deviations tolerated; reals: recorded float() table; h: hint (GNoHint unless
\* DevGserNoQuoteDoubling is tried)
GserRead(env, name, written, t, wsLf, S, reals, h) ==
  GReadAssignment(GLex(t, wsLf, S, reals), env, name, written, h)

\* accepted: read completely and the value is the abstract value v
GserAccepts(env, name, written, t, wsLf, S, reals, v) ==
  LET r == GserRead(env, name, written, t, wsLf, S, reals, IF "DevGserNoQuoteDoubling" \in S THEN GHint(v) ELSE GNoHint)
  IN r.ok /\ AbsEq(env, env.types[name], v, r.v)

=============================================================================
