----------------------------- MODULE TextCommon -----------------------------
(***************************************************************************)
(* What the text encoding rules (JER: X.697, XER: X.693 / X.680 value      *)
(* notation in XML) share: character classes of the two target syntaxes,   *)
(* decimal / hexadecimal / binary digit strings as code-point sequences,   *)
(* identifiers as code points, the lexical form "realnumber" (X.680 12.9), *)
(* integral numbers as REAL values.                                        *)
(*                                                                         *)
(* Text is always Seq(Nat) of Unicode code points.  Decimal <-> IEEE-754   *)
(* double conversion is NOT defined here (DESIGN 2.2): documents carry,    *)
(* next to the characters of a number, the bit pattern [c, s, m, e] an     *)
(* independent reader (float()) computed for them.                         *)
(***************************************************************************)
EXTENDS Asn1Value

------------------------------------------------------------------------------
(* characters of the target syntaxes                                        *)

\* XML 1.0 (5th ed.) production [2] Char
XmlChar(cp) ==
  \/ cp \in {9, 10, 13}
  \/ cp >= 32 /\ cp <= 55295
  \/ cp >= 57344 /\ cp <= 65533
  \/ cp >= 65536 /\ cp <= 1114111

\* Unicode scalar value (what a JSON string can carry: RFC 8259 section 7/8)
ScalarValue(cp) == cp >= 0 /\ cp <= 1114111 /\ ~(cp >= 55296 /\ cp <= 57343)

------------------------------------------------------------------------------
(* identifiers (TLC strings) as code points                                 *)

TcAlphabet == "ABCDEFGHIJKLMNOPQRSTUVWXYZabcdefghijklmnopqrstuvwxyz0123456789-_. +"
TcCodes == [i \in 1..26 |-> 64 + i] \o [i \in 1..26 |-> 96 + i] \o [i \in 1..10 |-> 47 + i] \o <<45, 95, 46, 32, 43>>
TcCodeOf == [c \in {SubSeq(TcAlphabet, i, i) : i \in 1..Len(TcAlphabet)} |->
               TcCodes[CHOOSE i \in 1..Len(TcAlphabet) : SubSeq(TcAlphabet, i, i) = c]]

\* code points of an identifier / keyword given as a TLC string
StrCps(s) == [i \in 1..Len(s) |-> TcCodeOf[SubSeq(s, i, i)]]

------------------------------------------------------------------------------
(* decimal digit strings                                                    *)

IsDigit(c) == c >= 48 /\ c <= 57
AllDigits(t) == t # <<>> /\ \A i \in 1..Len(t) : IsDigit(t[i])

\* magnitude (big-endian base-256 limbs) divided by a small number: <<quotient, remainder>>
MagDivSmall(m, d) ==
  LET step(st, limb) == LET cur == st[2] * 256 + limb
                        IN <<Append(st[1], cur \div d), cur % d>>
      r == FoldLeft(step, <<(<<>>), 0>>, m)
  IN <<MagNorm(r[1]), r[2]>>

\* magnitude times a small number (k < 2^16) plus a small number
MagMulAddSmall(m, k, a) ==
  LET n == Len(m)
      step(st, i) == LET cur == m[i] * k + st[2]
                     IN <<(<<cur % 256>>) \o st[1], cur \div 256>>
      r == FoldLeft(step, <<(<<>>), a>>, [j \in 1..n |-> n + 1 - j])
      carry == r[2]
  IN MagNorm(<<(carry \div 65536) % 256, (carry \div 256) % 256, carry % 256>> \o r[1])

RECURSIVE MagToDec(_)
MagToDec(m) ==   \* decimal digits, no leading zeros; <<>> for zero
  IF m = <<>> THEN <<>>
  ELSE LET qr == MagDivSmall(m, 10) IN Append(MagToDec(qr[1]), 48 + qr[2])

\* canonical decimal form of an integer: "0", "-5", "18446744073709551616"
IntToDec(a) == IF IsZero(a) THEN <<48>> ELSE (IF a.neg THEN <<45>> ELSE <<>>) \o MagToDec(a.mag)

NatToDec(n) == IntToDec(FromInt(n))

DecToMag(ds) == FoldLeft(LAMBDA acc, c : MagMulAddSmall(acc, 10, c - 48), <<>>, ds)

\* an optionally signed digit string -> [ok, v]
DecToInt(t) ==
  LET neg == t # <<>> /\ t[1] = 45
      ds == IF neg THEN Tail(t) ELSE t
  IN IF AllDigits(ds) THEN [ok |-> TRUE, v |-> Mk(neg, DecToMag(ds))]
     ELSE [ok |-> FALSE, v |-> Zero]

------------------------------------------------------------------------------
(* hexadecimal and binary digit strings                                     *)

HexDigit(n) == IF n < 10 THEN 48 + n ELSE 55 + n          \* upper case
HexUpper(octs) == Concat([i \in 1..Len(octs) |-> <<HexDigit(octs[i] \div 16), HexDigit(octs[i] % 16)>>])

IsHex(c) == IsDigit(c) \/ (c >= 65 /\ c <= 70) \/ (c >= 97 /\ c <= 102)
HexVal(c) == IF IsDigit(c) THEN c - 48 ELSE IF c <= 70 THEN c - 55 ELSE c - 87

\* an even number of hexadecimal digits -> [ok, v : octets]
HexToOctets(t) ==
  IF Len(t) % 2 = 0 /\ \A i \in 1..Len(t) : IsHex(t[i])
  THEN [ok |-> TRUE, v |-> [j \in 1..(Len(t) \div 2) |-> 16 * HexVal(t[2 * j - 1]) + HexVal(t[2 * j])]]
  ELSE [ok |-> FALSE, v |-> <<>>]

\* the bits of a BIT STRING value as "0" / "1" characters
BitsText(v) == LET bs == BitsOf(v) IN [i \in 1..v.n |-> 48 + bs[i]]

BitsFromText(t) ==
  IF \A i \in 1..Len(t) : t[i] \in {48, 49}
  THEN [ok |-> TRUE, v |-> [n |-> Len(t), b |-> BitsToBytes([i \in 1..Len(t) |-> t[i] - 48])]]
  ELSE [ok |-> FALSE, v |-> [n |-> 0, b |-> <<>>]]

------------------------------------------------------------------------------
(* OBJECT IDENTIFIER: arcs in decimal separated by "."  (X.680 32.3 XMLNumberForm list) *)

OidText(v) == Concat([i \in 1..Len(v) |-> (IF i = 1 THEN <<>> ELSE <<46>>) \o NatToDec(v[i])])

\* split at "." ; every part a digit string that fits a TLC integer
OidFromText(t) ==
  LET dots == SelectSeq([i \in 1..Len(t) |-> i], LAMBDA i : t[i] = 46)
      cuts == <<0>> \o dots \o <<Len(t) + 1>>
      parts == [j \in 1..(Len(cuts) - 1) |-> SubSeq(t, cuts[j] + 1, cuts[j + 1] - 1)]
      ok == \A j \in 1..Len(parts) : AllDigits(parts[j]) /\ Len(parts[j]) <= 9
  IN IF ok THEN [ok |-> TRUE, v |-> [j \in 1..Len(parts) |-> MagToNat(DecToMag(parts[j]))]]
     ELSE [ok |-> FALSE, v |-> <<>>]

------------------------------------------------------------------------------
(* X.680 12.9 "realnumber" with an optional leading "-" (XMLRealValue,      *)
(* X.680 21.x):  digits [ "." [digits] ] [ ("e"|"E") ["-"|"+"]? digits ]    *)
(* X.680 writes the exponent as an optionally *negative* integer; a "+" is  *)
(* accepted here as well (it is what every XML Schema double reader takes). *)

RealNumberText(t) ==
  LET body == IF t # <<>> /\ t[1] = 45 THEN Tail(t) ELSE t
      epos == SelectSeq([i \in 1..Len(body) |-> i], LAMBDA i : body[i] \in {69, 101})
      mant == IF epos = <<>> THEN body ELSE SubSeq(body, 1, epos[1] - 1)
      expo == IF epos = <<>> THEN <<48>> ELSE SubSeq(body, epos[1] + 1, Len(body))
      expd == IF expo # <<>> /\ expo[1] \in {43, 45} THEN Tail(expo) ELSE expo
      dpos == SelectSeq([i \in 1..Len(mant) |-> i], LAMBDA i : mant[i] = 46)
      ipart == IF dpos = <<>> THEN mant ELSE SubSeq(mant, 1, dpos[1] - 1)
      fpart == IF dpos = <<>> THEN <<>> ELSE SubSeq(mant, dpos[1] + 1, Len(mant))
  IN /\ Len(epos) <= 1
     /\ Len(dpos) <= 1
     /\ AllDigits(ipart)
     /\ \A i \in 1..Len(fpart) : IsDigit(fpart[i])
     /\ AllDigits(expd)

------------------------------------------------------------------------------
(* REAL values and whole numbers                                            *)

NoFl == [c |-> "NA", s |-> 0, m |-> <<>>, e |-> 0]      \* "no number here"

\* the REAL value equal to the integer a
IntAsReal(a) ==
  IF IsZero(a) THEN [c |-> "Z", s |-> 0, m |-> <<>>, e |-> 0]
  ELSE LET bits == MagToBits(a.mag, MagBitLen(a.mag))
           n == Len(bits)
           last1 == CHOOSE i \in 1..n : bits[i] = 1 /\ \A j \in (i + 1)..n : bits[j] = 0
       IN [c |-> "F", s |-> IF a.neg THEN 1 ELSE 0, m |-> MagFromBits(SubSeq(bits, 1, last1)), e |-> n - last1]

\* |x| < 10^(-4) for a finite non-zero REAL  (m * 2^e < 10^-4  <=>  m * 10^4 < 2^(-e))
RealAbsBelowTenToMinus4(x) ==
  /\ x.c = "F"
  /\ x.e < 0
  /\ MagCmp(MagMulAddSmall(x.m, 10000, 0), TwoTo(-x.e).mag) < 0

\* |x| >= 10 for a finite non-zero REAL
RealAbsAtLeastTen(x) ==
  /\ x.c = "F"
  /\ IF x.e >= 0 THEN MagCmp(MagFromBits(MagToBits(x.m, MagBitLen(x.m)) \o Zeros(x.e)), <<10>>) >= 0
     ELSE MagCmp(x.m, MagMulAddSmall(TwoTo(-x.e).mag, 10, 0)) >= 0

------------------------------------------------------------------------------
(* all leaves <<base type, value>> of v : T  (own copy: Profile.tla belongs  *)
(* to the wire-format family)                                               *)

RECURSIVE TxLeaves(_, _, _)
TxLeaves(env, T, v) ==
  CASE T.k = "REF" -> TxLeaves(env, env.types[T.name], v)
    [] T.k \in {"SEQ", "SET"} ->
         Concat([j \in 1..Len(AllMembers(T)) |->
            LET m == AllMembers(T)[j] IN IF v[m.n].p THEN TxLeaves(env, m.t, v[m.n].v) ELSE <<>>])
    [] T.k = "CHOICE" ->
         LET alts == AllAlts(T) IN TxLeaves(env, alts[MemberIndex(alts, v.a)].t, v.v)
    [] T.k \in {"SEQOF", "SETOF"} -> Concat([j \in 1..Len(v) |-> TxLeaves(env, T.e, v[j])])
    [] OTHER -> << <<T, v>> >>

TxAnyLeaf(env, T, v, P(_, _)) ==
  LET ls == TxLeaves(env, T, v) IN \E j \in 1..Len(ls) : P(ls[j][1], ls[j][2])

\* all SEQUENCE / SET nodes <<type, value>> inside v : T
RECURSIVE TxSeqNodes(_, _, _)
TxSeqNodes(env, T, v) ==
  CASE T.k = "REF" -> TxSeqNodes(env, env.types[T.name], v)
    [] T.k \in {"SEQ", "SET"} ->
         << <<T, v>> >> \o Concat([j \in 1..Len(AllMembers(T)) |->
            LET m == AllMembers(T)[j] IN IF v[m.n].p THEN TxSeqNodes(env, m.t, v[m.n].v) ELSE <<>>])
    [] T.k = "CHOICE" ->
         LET alts == AllAlts(T) IN TxSeqNodes(env, alts[MemberIndex(alts, v.a)].t, v.v)
    [] T.k \in {"SEQOF", "SETOF"} -> Concat([j \in 1..Len(v) |-> TxSeqNodes(env, T.e, v[j])])
    [] OTHER -> <<>>

\* candidate deviation sets, smallest first: singletons, pairs, everything
TxDevCandidates(devs) ==
  LET n == Len(devs)
      singles == [j \in 1..n |-> {devs[j]}]
      pairs == Concat([a \in 1..n |-> [b \in 1..(n - a) |-> {devs[a], devs[a + b]}]])
      allOf == IF n > 2 THEN <<{devs[j] : j \in 1..n}>> ELSE <<>>
  IN singles \o pairs \o allOf

=============================================================================
