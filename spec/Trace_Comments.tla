---------------------------- MODULE Trace_Comments ----------------------------
(***************************************************************************)
(* Binding B for C14: judges what harness/drive_comments.py recorded from  *)
(* the real parser, with the operators of Comments.tla and Layout.tla.     *)
(*                                                                         *)
(*   k = "mask"    a batch of strings enumerated by the scanner machine:   *)
(*                 parser.ignore_comments(s) against the kept mask of      *)
(*                 X.680 12.6 (exact: same length, kept characters         *)
(*                 identical, all others blanks, new-lines in place)       *)
(*   k = "text"    the same for a whole specification text, line by line;  *)
(*                 also writes the model's comment-free text to            *)
(*                 <TRACE_FILE>.blank                                      *)
(*                 (the harness tokenizes *that*, it knows no comment rule)*)
(*   k = "layout"  a window of a text re-laid out by Layout schedules:      *)
(*                 same token sequence (re-established here with XLex on   *)
(*                 both texts) => same parse result / same acceptance      *)
(*   k = "errline" a syntax error injected at a token: the line reported   *)
(*                 in the laid-out text must be the line of the token the  *)
(*                 parser blames in the comment-free layout                *)
(*                                                                         *)
(* An observation that the standard rules do not accept is explained, if   *)
(* possible, by the smallest set of named deviations (verdict "dev");      *)
(* otherwise it is rejected.  One report per line; a rejected line never   *)
(* stops the run.                                                          *)
(***************************************************************************)
EXTENDS Layout, TLCExt

Tr == ndJsonDeserialize(IOEnv.TRACE_FILE)

VARIABLE i

V(vi, kind, check, verdict, detail) ==
  [vi |-> vi, codec |-> kind, ne |-> FALSE, check |-> check, verdict |-> verdict, detail |-> detail]

\* non-empty subsets of a set of deviation names, smallest first
SubsetsBySize(devs) ==
  FlattenSeq([n \in 1..Cardinality(devs) |-> SetToSeq({S \in SUBSET devs : Cardinality(S) = n})])
ScannerDevSets == SubsetsBySize(ScannerDevs)
LayoutDevSets == SubsetsBySize(LayoutDevs)

Prefix(s, n) == IF Len(s) >= n THEN SubSeq(s, 1, n) ELSE s

------------------------------------------------------------------------------
(* k = "mask"                                                               *)

MsgKind(msg) ==
  IF Prefix(msg, 10) = "Missing */" THEN "block" ELSE IF Prefix(msg, 15) = "Missing newline" THEN "line" ELSE "other"

Agrees(res, o) ==
  IF res.ok THEN o.st = "ok" /\ o.t = res.b
  ELSE o.st = "exc" /\ o.cls = "ParseSyntaxException" /\ o.loc + 1 = res.at /\ MsgKind(o.msg) = res.why

Describe(o) ==
  IF o.st = "ok" THEN "returned " \o ToString(o.t)
  ELSE IF o.st = "exc" THEN "raised " \o o.cls \o " at offset " \o ToString(o.loc) \o ": " \o Prefix(o.msg, 60)
  ELSE o.st

\* A line holds a prefix p and extensions x of it; the run over p is shared by all of them.
\* base: run state after p under D;  result for p \o x
ResultFrom(cp, base, x, D) ==
  LET cx == Explode(x)
      st == FoldLeft(LAMBDA s, c : Step(s, c, D), base, cx)
      f == Final(st, D)
  IN [ok |-> f.ok, why |-> f.why, at |-> f.at, b |-> Implode(BlankChars(cp \o cx, st.kept))]

MaskVerdicts(L) ==
  LET cp == Explode(L.p)
      stdBase == ScanChars(cp, {})
      devBases == ForceSeq([q \in 1..Len(ScannerDevSets) |-> ScanChars(cp, ScannerDevSets[q])])
      RECURSIVE FirstExplaining(_, _)
      FirstExplaining(it, q) ==
        IF q > Len(ScannerDevSets) THEN 0
        ELSE IF Agrees(ResultFrom(cp, devBases[q], it.x, ScannerDevSets[q]), it.o) THEN q
        ELSE FirstExplaining(it, q + 1)
      One(vi, it) ==
        LET std == ResultFrom(cp, stdBase, it.x, {}) IN
        IF Agrees(std, it.o) THEN V(vi, "mask", "MASK", "ok", "")
        ELSE LET q == FirstExplaining(it, 1) IN
             IF q > 0 THEN V(vi, "mask", "MASK", "dev", ToString(ScannerDevSets[q]))
             ELSE V(vi, "mask", "MASK", "reject",
                    "ignore_comments(" \o ToString(L.p \o it.x) \o ") " \o Describe(it.o) \o "; X.680 12.6: " \o
                    (IF std.ok THEN ToString(std.b) ELSE "unterminated " \o std.why \o " comment at " \o ToString(std.at)))
  IN [j \in 1..Len(L.items) |-> One(j, L.items[j])]

------------------------------------------------------------------------------
(* k = "text"                                                               *)

TextAgreesR(r, D, o) ==
  LET f == Final(r.st, D)
  IN IF f.ok THEN o.st = "ok" /\ o.lines = r.out
     ELSE o.st = "exc" /\ o.cls = "ParseSyntaxException" /\ o.loc + 1 = f.at
TextAgrees(lines, D, o) == TextAgreesR(ScanLines(lines, D), D, o)

FirstDiff(a, b) ==
  LET ds == {j \in 1..Len(a) : j > Len(b) \/ a[j] # b[j]} IN IF ds = {} THEN 0 ELSE CHOOSE j \in ds : \A q \in ds : j <= q

TextVerdict(L, std) ==      \* std = ScanLines(L.lines, {})
  IF TextAgreesR(std, {}, L.o) THEN V(1, "text", "MASK", "ok", "")
  ELSE LET cands == [j \in 1..Len(ScannerDevSets) |-> ScannerDevSets[j]]
           hit == SelectSeq(cands, LAMBDA S : Cardinality(S) \in {1, Cardinality(ScannerDevs)} /\ TextAgrees(L.lines, S, L.o))
       IN IF hit # <<>> THEN V(1, "text", "MASK", "dev", ToString(hit[1]))
          ELSE V(1, "text", "MASK", "reject",
                 IF L.o.st = "ok"
                 THEN LET d == FirstDiff(std.out, L.o.lines)
                      IN "comment-free text differs from X.680 12.6 first at line " \o ToString(d) \o ": " \o
                         (IF d > 0 /\ d <= Len(L.o.lines) THEN ToString(L.o.lines[d]) ELSE "")
                 ELSE "ignore_comments raised " \o L.o.cls \o ": " \o Prefix(L.o.msg, 80))

BlankRecord(L, std) == [tid |-> L.tid, blank |-> std.out, ok |-> Final(std.st, {}).ok]

------------------------------------------------------------------------------
(* k = "layout"                                                             *)

\* A line holds one window of a text (tokens L.toks, original text L.worig, outcome L.o0 of parsing the
\* original text) and several re-laid-out versions c of it (changes c.ch in ascending boundary order,
\* window text c.wnew, outcome c.o1, c.same: the two dictionaries are equal).
Accepted(o) == o.st = "ok"
SameOutcome(o0, c) ==
  \/ Accepted(o0) /\ Accepted(c.o1) /\ c.same
  \/ o0.st = "exc" /\ c.o1.st = "exc" /\ o0.cls = c.o1.cls

Outcome(o) ==
  IF o.st = "ok" THEN "accepted"
  ELSE IF o.st = "exc" THEN o.cls \o ": " \o Prefix(o.msg, 110)
  ELSE o.st

LayoutVerdicts(L) ==
  LET co == ExplodeLines(L.worig)
      items == XLexItems(BlankOf(co, {}))          \* the items of the original window, once per line
      tokOK == Toks(items) = L.toks
      \* The new window differs from the original only between the first and the last changed boundary:
      \* it must be  original up to token i1 | new middle | original from the end of token i2+1,  and the
      \* middle (token i1 .. token i2+1 with the new fillers) must have exactly these items.
      SameTokens(c, cn) ==
        LET i1 == c.ch[1][1]
            i2 == c.ch[Len(c.ch)][1]
            preLen == items[i1].a - 1
            postLen == Len(co) - items[i2 + 1].z
            midLen == Len(cn) - preLen - postLen
        IN /\ i1 >= 1 /\ i1 <= i2 /\ i2 < Len(items) /\ midLen >= 0
           /\ SubSeq(cn, 1, preLen) = SubSeq(co, 1, preLen)
           /\ SubSeq(cn, preLen + midLen + 1, Len(cn)) = SubSeq(co, items[i2 + 1].z + 1, Len(co))
           /\ XLex(SubSeq(cn, preLen + 1, preLen + midLen)) = SubSeq(L.toks, i1, i2 + 1)
      One(vi, c) ==
        IF ~tokOK THEN V(vi, "layout", "LAYOUT", "machinery", "harness tokens of the original differ from XLex in " \o L.wid)
        ELSE LET cn == ExplodeLines(c.wnew) IN
        IF ~SameTokens(c, cn) THEN V(vi, "layout", "LAYOUT", "machinery", "the re-laid-out window has other tokens (XLex) in " \o L.wid)
        ELSE IF SameOutcome(L.o0, c) THEN V(vi, "layout", "LAYOUT", "ok", "")
        ELSE LET RECURSIVE FirstExplaining(_)
                 FirstExplaining(q) ==
                   IF q > Len(LayoutDevSets) THEN 0
                   ELSE IF ImplView(co, LayoutDevSets[q]) # ImplView(cn, LayoutDevSets[q]) THEN q
                   ELSE FirstExplaining(q + 1)
                 q == FirstExplaining(1)
             IN IF q > 0 THEN V(vi, "layout", "LAYOUT", "dev", ToString(LayoutDevSets[q]))
                ELSE V(vi, "layout", "LAYOUT", "reject",
                       "same token sequence, other result: original " \o Outcome(L.o0) \o " | re-laid-out " \o
                       (IF Accepted(L.o0) /\ Accepted(c.o1) THEN "accepted with another dictionary" ELSE Outcome(c.o1)) \o
                       " | changes " \o ToString(c.ch))
  IN [j \in 1..Len(L.cases) |-> One(j, L.cases[j])]

------------------------------------------------------------------------------
(* k = "errline"                                                            *)

ErrVerdict(L) ==
  IF \/ JoinLines(L.lead0) \o Render(L.toks, [q \in 1..Len(L.f0) |-> JoinLines(L.f0[q])]) \o JoinLines(L.trail0) # JoinLines(L.t0)
     \/ JoinLines(L.lead1) \o Render(L.toks, [q \in 1..Len(L.f1) |-> JoinLines(L.f1[q])]) \o JoinLines(L.trail1) # JoinLines(L.t1)
  THEN V(1, "errline", "ERRLINE", "machinery", "recorded texts are not the rendering of the recorded tokens and fillers")
  ELSE IF ~(L.l0.st = "exc" /\ L.l0.cls = "ParseError" /\ L.l0.line > 0)
  THEN V(1, "errline", "ERRLINE", "skip", "the injected item is no syntax error for the parser in the comment-free layout")
  ELSE IF ~(L.l1.st = "exc" /\ L.l1.cls = "ParseError" /\ L.l1.line > 0)
  THEN V(1, "errline", "ERRLINE", "reject", "syntax error reported in the comment-free layout but " \o Outcome(L.l1) \o " in the laid-out text")
  ELSE LET n == Len(L.toks)
           j == TokenAt(PositionsAfter(L.lead0, L.toks, L.f0, {}, n), L.l0.line, L.l0.col)
           LineIn(D) == IF j <= n THEN PositionsAfter(L.lead1, L.toks, L.f1, D, j)[j].line
                        ELSE PositionsAfter(L.lead1, L.toks, L.f1, D, n)[n].line + NLCount(ReadAs(L.trail1, D))
       IN IF j <= 0 \/ (j > n /\ ~L.attail)
          THEN V(1, "errline", "ERRLINE", "skip", "the parser's error position is not on a token of the window")
          ELSE IF L.l1.line = LineIn({}) THEN V(1, "errline", "ERRLINE", "ok", "")
          ELSE IF L.l1.line = LineIn({DevBlockCommentNewlinesBlanked})
               THEN V(1, "errline", "ERRLINE", "dev", ToString({DevBlockCommentNewlinesBlanked}))
          ELSE V(1, "errline", "ERRLINE", "reject",
                 "error reported at line " \o ToString(L.l1.line) \o " but the offending item (token " \o ToString(j) \o
                 (IF j <= n THEN " " \o ToString(L.toks[j]) ELSE " = end of text") \o ") is on line " \o ToString(LineIn({})))

------------------------------------------------------------------------------

Verdicts(L, std) ==
  CASE L.k = "mask" -> MaskVerdicts(L)
    [] L.k = "text" -> <<TextVerdict(L, std)>>
    [] L.k = "layout" -> LayoutVerdicts(L)
    [] L.k = "errline" -> <<ErrVerdict(L)>>

LineReport(L, std) ==
  LET all == Verdicts(L, std)
  IN [cid |-> L.cid, n |-> Len(all),
      ok |-> Len(SelectSeq(all, LAMBDA r : r.verdict = "ok")),
      other |-> SelectSeq(all, LAMBDA r : r.verdict # "ok")]

Append2(file, r) ==
  Serialize(ToJson(r) \o "\n", file,
            [format |-> "TXT", charset |-> "UTF-8", openOptions |-> <<"WRITE", "CREATE", "APPEND">>]).exitValue = 0

Init == i = 1 /\ ScannerIdle /\ LayoutIdle
Next == /\ i <= Len(Tr)
        /\ LET std == IF Tr[i].k = "text" THEN ScanLines(Tr[i].lines, {}) ELSE [st |-> Scan0, out |-> <<>>] IN
             /\ Append2(IOEnv.VERDICT_FILE, LineReport(Tr[i], std))
             /\ Tr[i].k = "text" => Append2(IOEnv.TRACE_FILE \o ".blank", BlankRecord(Tr[i], std))
        /\ i' = i + 1
        /\ ScannerStays /\ LayoutStays
Spec == Init /\ [][Next]_<<i, scanVars, layVars>>

TraceAccepted == TLCGet("stats").diameter - 1 = Len(Tr)

=============================================================================
