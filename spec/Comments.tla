------------------------------ MODULE Comments ------------------------------
(***************************************************************************)
(* X.680 clause 12 -- the lexical rules that decide what is a comment,     *)
(* what is white-space and what is a lexical item (property C14).          *)
(*                                                                         *)
(* Part 1  the comment scanner of 12.6 as an explicit step function        *)
(*         Step(st, c, D) over the modes                                   *)
(*            Code | InString | LineComment | BlockComment(depth)          *)
(*         producing the *kept mask* (1 = the character survives, 0 = it   *)
(*         is comment text and reads as a blank).  D is the set of named   *)
(*         deviations switched on (DESIGN 2.3); the standard is D = {}.    *)
(* Part 2  the same rules once more as a look-ahead scanner over positions *)
(*         (RefScan), and as declarative predicates over a finished run.   *)
(* Part 3  the scanner as a transition system that reads one character per *)
(*         step (variables gText, gPos, gMode, gDepth, gPend, gKept,       *)
(*         gOpen, gCmts).  TLC explores every string over Alphabet up to   *)
(*         MaxLen, checks the invariants of part 2 in every state and      *)
(*         emits each string with the model's mask (binding A).            *)
(* Part 4  the lexical items of clause 12 (XLex) on comment-free text, the *)
(*         words of multi-word keywords, and the token sequence *as the    *)
(*         implementation sees it* under a set of deviations (ImplView).   *)
(*                                                                         *)
(* Text is a sequence of one-character strings (Explode of a TLC string).  *)
(***************************************************************************)
EXTENDS Integers, Sequences, SequencesExt, FiniteSets, TLC, Json, IOUtils

CONSTANTS MaxLen,       \* longest string explored by the scanner machine
          Alphabet,     \* its characters (one-character strings)
          Mut           \* wrong rules (MUT_...) switched on in the machine, for sensitivity tests only; {} is the specification

ForceSeq(f) == f \o <<>>      \* TLC: evaluate a function constructor once, into a tuple
Explode(s) == ForceSeq([i \in 1..Len(s) |-> SubSeq(s, i, i)])
Implode(cs) == FoldLeft(LAMBDA acc, c : acc \o c, "", cs)

NL  == "\n"
DQ  == "\""
SP  == " "
TAB == "\t"
CR  == "\r"

------------------------------------------------------------------------------
(* Named deviations of asn1tools.parser from these rules                    *)

DevCommentMarkerInString       == "DevCommentMarkerInString"        \* no InString mode: -- and /* inside "..." start comments
DevLineCommentAtEofRejected    == "DevLineCommentAtEofRejected"     \* "-- c" closed by the end of the text is an error
DevStarSlashUnitInCode         == "DevStarSlashUnitInCode"          \* outside comments "*/" is consumed as a unit, so "*/*" opens no comment
DevBlockCommentNewlinesBlanked == "DevBlockCommentNewlinesBlanked"  \* new-lines inside /* */ are replaced by spaces (later lines are renumbered)
DevMultiWordKeywordSingleSpace == "DevMultiWordKeywordSingleSpace"  \* words of some keywords must be separated by exactly one space
DevClassFieldRefNoSpace        == "DevClassFieldRefNoSpace"         \* CLASS . &field (X.681 14.1) only without white-space around the "."
DevReservedWordNeedsSpace      == "DevReservedWordNeedsSpace"       \* END SEQUENCE ENUMERATED WITH are reserved only before white-space
ScannerDevs == {DevCommentMarkerInString, DevLineCommentAtEofRejected, DevStarSlashUnitInCode, DevBlockCommentNewlinesBlanked}

------------------------------------------------------------------------------
(* Part 1: 12.6 as a step function                                          *)

Scan0 == [mode |-> "Code", depth |-> 0, pend |-> "", kept |-> <<>>, pos |-> 0, open |-> 0]

\* st.pend: the previous character when it may be the first half of a two-character
\*          marker ("-" of "--", "/" of "/*", "*" of "*/"); "" after a completed marker
\* st.open: position of the first character of the comment being read (0: none)
\* st.kept: mask of the characters read since the caller last reset it
\* st.pos : number of characters read
Step(st, c, D) ==
  LET k == Len(st.kept)
      p == st.pos + 1
      Keep(m, pd) == [st EXCEPT !.mode = m, !.pend = pd, !.pos = p, !.kept = Append(@, 1)]
      Drop(m, pd) == [st EXCEPT !.mode = m, !.pend = pd, !.pos = p, !.kept = Append(@, 0)]
      \* the previous character was kept provisionally; it turns out to open a comment
      OpenComment(m) == [st EXCEPT !.mode = m, !.depth = IF m = "BlockComment" THEN 1 ELSE 0, !.pend = "",
                                   !.pos = p, !.open = p - 1, !.kept = Append([@ EXCEPT ![k] = 0], 0)]
  IN
  CASE st.mode = "Code" ->
         IF st.pend = "-" /\ c = "-" THEN OpenComment("LineComment")                         \* 12.6.3
         ELSE IF st.pend = "/" /\ c = "*" THEN OpenComment("BlockComment")                   \* 12.6.4
         ELSE IF st.pend = "*" /\ c = "/" THEN Keep("Code", "")                              \* (only with DevStarSlashUnitInCode)
         ELSE IF c = DQ /\ DevCommentMarkerInString \notin D /\ "MUT_NoStringMode" \notin D
              THEN Keep("InString", "")                                                      \* 12.14 cstring opens
         ELSE Keep("Code", IF c \in {"-", "/"} THEN c
                           ELSE IF c = "*" /\ DevStarSlashUnitInCode \in D THEN "*" ELSE "")
    [] st.mode = "InString" ->                                                               \* nothing is a marker in here;
         Keep(IF c = DQ THEN "Code" ELSE "InString", "")                                     \* "" = close + reopen
    [] st.mode = "LineComment" ->
         IF c = NL THEN [Keep("Code", "") EXCEPT !.open = 0]                                 \* ends at the end of the line (the new-line stays)
         ELSE IF st.pend = "-" /\ c = "-" /\ "MUT_LineCommentOnlyToEol" \notin D
              THEN [Drop("Code", "") EXCEPT !.open = 0]                                      \* ... or at the next pair of hyphens
         ELSE Drop("LineComment", IF c = "-" THEN "-" ELSE "")                               \* "/*" and "*/" mean nothing here
    [] st.mode = "BlockComment" ->
         IF st.pend = "/" /\ c = "*" /\ "MUT_BlockNoNesting" \notin D
              THEN [Drop("BlockComment", "") EXCEPT !.depth = @ + 1]                         \* nested opening
         ELSE IF st.pend = "*" /\ c = "/"
              THEN (IF st.depth = 1 THEN [Drop("Code", "") EXCEPT !.depth = 0, !.open = 0]
                    ELSE [Drop("BlockComment", "") EXCEPT !.depth = @ - 1])
         ELSE IF c = NL /\ DevBlockCommentNewlinesBlanked \notin D /\ "MUT_BlockEatsNewline" \notin D
              THEN Keep("BlockComment", "")                                                  \* line structure survives
         ELSE Drop("BlockComment", IF c \in {"/", "*"} THEN c ELSE "")                       \* "--" means nothing here

\* what the end of the text means in each mode
Final(st, D) ==
  IF st.mode = "BlockComment" THEN [ok |-> FALSE, why |-> "block", at |-> st.open]
  ELSE IF st.mode = "LineComment" /\ DevLineCommentAtEofRejected \in D THEN [ok |-> FALSE, why |-> "line", at |-> st.open]
  ELSE [ok |-> TRUE, why |-> "", at |-> 0]          \* the end of the text ends the last line, hence a "--" comment

ScanChars(cs, D) == FoldLeft(LAMBDA st, c : Step(st, c, D), Scan0, cs)
BlankChars(cs, kept) == [i \in 1..Len(cs) |-> IF kept[i] = 1 THEN cs[i] ELSE SP]

\* comment-free text of a (short) string: comments read as blanks, same length, same lines
BlankOf(cs, D) == LET kept == ScanChars(cs, D).kept IN ForceSeq(BlankChars(cs, kept))

\* Long texts are scanned line by line (each element of `lines` ends with its new-line, except
\* possibly the last): no marker contains a new-line, so st.pend is "" at every line start and the
\* mask can be restarted per line.  Result: [st |-> final run state, out |-> blanked lines].
ScanLines(lines, D) ==
  FoldLeft(LAMBDA acc, ln :
             LET cs == Explode(ln)
                 st == FoldLeft(LAMBDA s, c : Step(s, c, D), [acc.st EXCEPT !.kept = <<>>], cs)
             IN [st |-> st, out |-> Append(acc.out, Implode(BlankChars(cs, st.kept)))],
           [st |-> Scan0, out |-> <<>>], lines)

------------------------------------------------------------------------------
(* Part 2: the same rules, formulated twice more                            *)

\* (a) look-ahead over positions: mask of s[i..] when position i is reached in `mode`
RECURSIVE RefScan(_, _, _, _)
RefScan(s, i, mode, d) ==
  IF i > Len(s) THEN <<>>
  ELSE LET two == IF i < Len(s) THEN s[i] \o s[i + 1] ELSE "" IN
    CASE mode = "Code" ->
           IF two = "--" THEN <<0, 0>> \o RefScan(s, i + 2, "LineComment", 0)
           ELSE IF two = "/*" THEN <<0, 0>> \o RefScan(s, i + 2, "BlockComment", 1)
           ELSE <<1>> \o RefScan(s, i + 1, IF s[i] = DQ THEN "InString" ELSE "Code", 0)
      [] mode = "InString" -> <<1>> \o RefScan(s, i + 1, IF s[i] = DQ THEN "Code" ELSE "InString", 0)
      [] mode = "LineComment" ->
           IF s[i] = NL THEN <<1>> \o RefScan(s, i + 1, "Code", 0)
           ELSE IF two = "--" THEN <<0, 0>> \o RefScan(s, i + 2, "Code", 0)
           ELSE <<0>> \o RefScan(s, i + 1, "LineComment", 0)
      [] mode = "BlockComment" ->
           IF two = "/*" THEN <<0, 0>> \o RefScan(s, i + 2, "BlockComment", d + 1)
           ELSE IF two = "*/" THEN <<0, 0>> \o RefScan(s, i + 2, IF d = 1 THEN "Code" ELSE "BlockComment", d - 1)
           ELSE <<IF s[i] = NL THEN 1 ELSE 0>> \o RefScan(s, i + 1, "BlockComment", d)

RefMask(s) == RefScan(s, 1, "Code", 0)

\* (b) declarative predicates over a run R = [text, kept, mode, depth, open, cmts]; cmts lists the
\* comments closed so far as [from, to, kind, by] (by: "--", "nl", "*/"); R.open > 0 is the one still open
PairAt(t, j, two) == j >= 1 /\ j < Len(t) /\ t[j] \o t[j + 1] = two
KeptQuotesBefore(R, j) == Cardinality({q \in 1..(j - 1) : R.text[q] = DQ /\ R.kept[q] = 1})
AllComments(R) ==
  R.cmts \o (IF R.open > 0 THEN <<[from |-> R.open, to |-> Len(R.text),
                                   kind |-> IF R.mode = "LineComment" THEN "line" ELSE "block", by |-> "open"]>> ELSE <<>>)

\* the mask has the length of the text, keeps every new-line, and blanks exactly the comments
InvMaskShape(R) ==
  /\ Len(R.kept) = Len(R.text)
  /\ \A j \in 1..Len(R.text) : R.text[j] = NL => R.kept[j] = 1
  /\ \A j \in 1..Len(R.text) :
        R.kept[j] = 0 <=> (R.text[j] # NL /\ \E q \in 1..Len(AllComments(R)) : AllComments(R)[q].from <= j /\ j <= AllComments(R)[q].to)

\* hence offsets and line numbers of the surviving characters are those of the original text
LineOf(t, j) == 1 + Cardinality({q \in 1..(j - 1) : t[q] = NL})
InvLinesPreserved(R) ==
  LET b == BlankChars(R.text, R.kept) IN \A j \in 1..Len(R.text) : LineOf(b, j) = LineOf(R.text, j)

\* a comment never starts inside a character string literal: the kept quotes before it pair up
InvStringsOpaque(R) ==
  \A q \in 1..Len(AllComments(R)) : KeptQuotesBefore(R, AllComments(R)[q].from) % 2 = 0

\* a "--" comment ends at the first following "--" or at the end of its line, whichever comes first
InvLineComment(R) ==
  \A q \in 1..Len(AllComments(R)) :
    LET c == AllComments(R)[q] IN
    c.kind = "line" =>
      /\ PairAt(R.text, c.from, "--")
      /\ \A j \in c.from..c.to : R.text[j] # NL
      /\ \A j \in (c.from + 2)..(c.to - 2) : ~PairAt(R.text, j, "--")       \* no earlier closing pair
      /\ c.by = "--" => c.to >= c.from + 3 /\ PairAt(R.text, c.to - 1, "--")
      /\ c.by = "nl" => R.text[c.to + 1] = NL /\ ~(c.to >= c.from + 3 /\ PairAt(R.text, c.to - 1, "--"))
      /\ c.by = "open" => ~(c.to >= c.from + 3 /\ PairAt(R.text, c.to - 1, "--"))

\* /* */ nest: a block comment starts with "/*", ends with "*/", and inside it the openings and closings,
\* read left to right without overlap, balance exactly at its end and nowhere before
RECURSIVE Balance(_, _, _, _)
Balance(t, j, to, d) ==     \* depth after reading t[j..to] starting at depth d; -1 as soon as it reaches 0 early
  IF j > to THEN d
  ELSE IF PairAt(t, j, "/*") /\ j + 1 <= to THEN Balance(t, j + 2, to, d + 1)
  ELSE IF PairAt(t, j, "*/") /\ j + 1 <= to THEN (IF d = 1 THEN (IF j + 1 = to THEN 0 ELSE -1) ELSE Balance(t, j + 2, to, d - 1))
  ELSE Balance(t, j + 1, to, d)
InvBlockNesting(R) ==
  /\ (R.mode = "BlockComment") <=> (R.depth > 0)
  /\ \A q \in 1..Len(AllComments(R)) :
       LET c == AllComments(R)[q] IN
       c.kind = "block" =>
         /\ PairAt(R.text, c.from, "/*")
         /\ c.by = "*/" => Balance(R.text, c.from, c.to, 0) = 0
         /\ c.by = "open" => Balance(R.text, c.from, c.to, 0) = R.depth

InvOnlineEqualsLookahead(R) == R.kept = RefMask(R.text)

RunInvariants(R) ==
  /\ InvMaskShape(R) /\ InvLinesPreserved(R) /\ InvStringsOpaque(R)
  /\ InvLineComment(R) /\ InvBlockNesting(R) /\ InvOnlineEqualsLookahead(R)

\* a run of the step function with the comment history kept beside it (what the machine below does);
\* D may also name deliberately wrong rules (MUT_...), used only to show that the invariants bite
RunStepD(R, c, D) ==
  LET st == [mode |-> R.mode, depth |-> R.depth, pend |-> R.pend, kept |-> R.kept, pos |-> Len(R.text), open |-> R.open]
      s2 == Step(st, c, D)
      n == Len(R.text) + 1
      closed == st.mode \in {"LineComment", "BlockComment"} /\ s2.mode = "Code"
      rec == [from |-> st.open, to |-> IF c = NL THEN n - 1 ELSE n,
              kind |-> IF st.mode = "LineComment" THEN "line" ELSE "block",
              by |-> IF st.mode = "BlockComment" THEN "*/" ELSE IF c = NL THEN "nl" ELSE "--"]
  IN [text |-> Append(R.text, c), mode |-> s2.mode, depth |-> s2.depth, pend |-> s2.pend, kept |-> s2.kept,
      open |-> s2.open, cmts |-> IF closed THEN Append(R.cmts, rec) ELSE R.cmts]
RunStep(R, c) == RunStepD(R, c, Mut)
Run0 == [text |-> <<>>, mode |-> "Code", depth |-> 0, pend |-> "", kept |-> <<>>, open |-> 0, cmts |-> <<>>]
RunOfD(s, D) == FoldLeft(LAMBDA R, c : RunStepD(R, c, D), Run0, Explode(s))
RunOf(s) == RunOfD(s, {})

------------------------------------------------------------------------------
(* Part 3: the scanner as a transition system, one character per step       *)

VARIABLES gText, gPos, gMode, gDepth, gPend, gKept, gOpen, gCmts
scanVars == <<gText, gPos, gMode, gDepth, gPend, gKept, gOpen, gCmts>>

gRun == [text |-> gText, mode |-> gMode, depth |-> gDepth, pend |-> gPend, kept |-> gKept, open |-> gOpen, cmts |-> gCmts]

ScanInit ==
  /\ gText = <<>> /\ gPos = 0 /\ gMode = "Code" /\ gDepth = 0 /\ gPend = "" /\ gKept = <<>> /\ gOpen = 0 /\ gCmts = <<>>

\* which rule of 12.6 a character triggers in the current state (names the actions)
Rule(c) ==
  CASE gMode = "Code" /\ gPend = "-" /\ c = "-" -> "OpenLineComment"
    [] gMode = "Code" /\ gPend = "/" /\ c = "*" -> "OpenBlockComment"
    [] gMode = "Code" /\ c = DQ -> "OpenString"
    [] gMode = "Code" -> "CodeChar"
    [] gMode = "InString" /\ c = DQ -> "CloseString"
    [] gMode = "InString" -> "StringChar"
    [] gMode = "LineComment" /\ c = NL -> "CloseLineCommentAtEol"
    [] gMode = "LineComment" /\ gPend = "-" /\ c = "-" -> "CloseLineCommentByHyphens"
    [] gMode = "LineComment" -> "LineCommentChar"
    [] gMode = "BlockComment" /\ gPend = "/" /\ c = "*" -> "NestBlockComment"
    [] gMode = "BlockComment" /\ gPend = "*" /\ c = "/" -> "CloseBlockComment"
    [] OTHER -> "BlockCommentChar"
Rules == {"OpenLineComment", "OpenBlockComment", "OpenString", "CodeChar", "CloseString", "StringChar",
          "CloseLineCommentAtEol", "CloseLineCommentByHyphens", "LineCommentChar", "NestBlockComment",
          "CloseBlockComment", "BlockCommentChar"}

Read(rule) ==
  /\ gPos < MaxLen
  /\ \E c \in Alphabet :
       /\ Rule(c) = rule
       /\ LET r2 == RunStep(gRun, c) IN
            /\ gText' = r2.text /\ gPos' = gPos + 1 /\ gMode' = r2.mode /\ gDepth' = r2.depth
            /\ gPend' = r2.pend /\ gKept' = r2.kept /\ gOpen' = r2.open /\ gCmts' = r2.cmts

ScanNext == \E rule \in Rules : Read(rule)
ScanSpec == ScanInit /\ [][ScanNext]_scanVars

\* invariants (state predicates) checked by TLC in every reachable state = for every string
MaskShape == InvMaskShape(gRun)
LinesPreserved == InvLinesPreserved(gRun)
StringsOpaque == InvStringsOpaque(gRun)
LineCommentEnds == InvLineComment(gRun)
BlockCommentsNest == InvBlockNesting(gRun)
OnlineEqualsLookahead == InvOnlineEqualsLookahead(gRun)
TypeOK == /\ gMode \in {"Code", "InString", "LineComment", "BlockComment"}
          /\ gDepth \in 0..MaxLen /\ gPend \in {"", "-", "/", "*"} /\ gPos = Len(gText)
          /\ (gOpen > 0) <=> (gMode \in {"LineComment", "BlockComment"})

\* action properties: inside a string every character is kept and only a quote leaves the mode;
\* the nesting depth moves by at most one
StringStep == [][gMode = "InString" => /\ gKept'[gPos'] = 1
                                       /\ gMode' \in {"InString", "Code"}
                                       /\ (gMode' = "Code") <=> (gText'[gPos'] = DQ)]_scanVars
DepthStep == [][gDepth' - gDepth \in {-1, 0, 1}]_scanVars

\* binding A: every explored string with the model's result, one JSON object per string.  A state
\* whose text p has even length writes one line: p and, for every extension of p by one or two
\* characters (within MaxLen), the extension x with the result for p \o x; the empty text adds itself.
CaseOf(R, x) ==
  LET f == Final([mode |-> R.mode, depth |-> R.depth, pend |-> R.pend, kept |-> R.kept, pos |-> Len(R.text), open |-> R.open], {})
  IN [x |-> x, b |-> Implode(BlankChars(R.text, R.kept)), e |-> IF f.ok THEN "ok" ELSE f.why, at |-> f.at, m |-> R.mode]
MaskCases ==
  LET al == SetToSeq(Alphabet)
      one == ForceSeq([j \in 1..Len(al) |-> RunStep(gRun, al[j])])
      c1 == [j \in 1..Len(al) |-> CaseOf(one[j], al[j])]
      c2 == IF gPos + 2 > MaxLen THEN <<>>
            ELSE FlattenSeq([j \in 1..Len(al) |-> [q \in 1..Len(al) |-> CaseOf(RunStep(one[j], al[q]), al[j] \o al[q])]])
  IN (IF gPos = 0 THEN <<CaseOf(gRun, "")>> ELSE <<>>) \o c1 \o c2
EmitMask ==
  (gPos % 2 = 0 /\ gPos < MaxLen) =>
    Serialize(ToJson([p |-> Implode(gText), items |-> MaskCases]) \o "\n", IOEnv.OUT_FILE,
              [format |-> "TXT", charset |-> "UTF-8", openOptions |-> <<"WRITE", "CREATE", "APPEND">>]).exitValue = 0

Alphabet7 == {"-", "/", "*", DQ, NL, "a", SP}

\* for modules that extend this one and do not run the scanner machine
ScannerIdle == ScanInit
ScannerStays == UNCHANGED scanVars

------------------------------------------------------------------------------
(* Part 4: lexical items (X.680 12.2-12.37) of comment-free text            *)

Letters == {SubSeq("abcdefghijklmnopqrstuvwxyzABCDEFGHIJKLMNOPQRSTUVWXYZ", i, i) : i \in 1..52}
Digits == {SubSeq("0123456789", i, i) : i \in 1..10}
NameChars == Letters \cup Digits \cup {"-"}          \* references, identifiers, numbers, reserved words (12.2-12.9, 12.38)
NameStart == NameChars \cup {"&"}                    \* X.681 7: field references begin with "&"
WhiteSpace == {SP, TAB, NL, CR}                      \* 12.1.6 (the subset handled here)
PunctStart == {":", ".", "[", "]"}                   \* first characters of the multi-character items
PunctItems == {"::", "::=", "..", "...", "[[", "]]"} \* "::" only as a prefix of "::="
Abutting == {"{", "}", "(", ")", ",", ";"}           \* single-character items that need no white-space around them

Lex0 == [m |-> "none", tok |-> "", a |-> 0, num |-> FALSE, p |-> 0, out |-> <<>>]

\* close the current item (it ends at position z)
LexFlush(L, z) ==
  IF L.tok = "" THEN [L EXCEPT !.m = "none"]
  ELSE [L EXCEPT !.out = Append(@, [t |-> L.tok, a |-> L.a, z |-> z]), !.tok = "", !.m = "none", !.num = FALSE]

\* character c at position p when no item is open
LexFresh(L, c, p) ==
  IF c \in WhiteSpace THEN L
  ELSE IF c = DQ THEN [L EXCEPT !.m = "cstr", !.tok = c, !.a = p]
  ELSE IF c = "'" THEN [L EXCEPT !.m = "qstr", !.tok = c, !.a = p]
  ELSE IF c \in NameStart THEN [L EXCEPT !.m = "name", !.tok = c, !.a = p, !.num = (c \in Digits \/ c = "-")]
  ELSE IF c \in PunctStart THEN [L EXCEPT !.m = "punct", !.tok = c, !.a = p]
  ELSE [L EXCEPT !.out = Append(@, [t |-> c, a |-> p, z |-> p])]

LexStep(L0, c) ==
  LET p == L0.p + 1
      L == [L0 EXCEPT !.p = p]
      Ext(m) == [L EXCEPT !.tok = @ \o c, !.m = m]
  IN
  CASE L.m = "none" -> LexFresh(L, c, p)
    [] L.m = "cstr" -> Ext(IF c = DQ THEN "cstrq" ELSE "cstr")                          \* 12.14
    [] L.m = "cstrq" -> IF c = DQ THEN Ext("cstr") ELSE LexFresh(LexFlush(L, p - 1), c, p)   \* "" inside a cstring
    [] L.m = "qstr" -> Ext(IF c = "'" THEN "qend" ELSE "qstr")                          \* 12.10, 12.12
    [] L.m = "qend" -> IF c \in {"B", "H"} THEN LexFlush(Ext("qend"), p) ELSE LexFresh(LexFlush(L, p - 1), c, p)
    [] L.m = "name" ->
         IF c \in NameChars THEN [Ext("name") EXCEPT !.num = L.num /\ c \in Digits]
         ELSE IF c = "." /\ L.num THEN [L EXCEPT !.m = "numdot"]                        \* 12.9 realnumber or a range
         ELSE LexFresh(LexFlush(L, p - 1), c, p)
    [] L.m = "numdot" ->
         IF c \in Digits THEN [L EXCEPT !.tok = @ \o "." \o c, !.m = "name", !.num = FALSE]
         ELSE LET L1 == LexFlush(L, p - 2)
                  L2 == [L1 EXCEPT !.m = "punct", !.tok = ".", !.a = p - 1]
              IN IF c = "." THEN [L2 EXCEPT !.tok = ".."] ELSE LexFresh(LexFlush(L2, p - 1), c, p)
    [] L.m = "punct" -> IF (L.tok \o c) \in PunctItems THEN Ext("punct") ELSE LexFresh(LexFlush(L, p - 1), c, p)

LexEnd(L) ==
  IF L.m = "numdot" THEN LexFlush([LexFlush(L, L.p - 1) EXCEPT !.tok = ".", !.a = L.p], L.p)
  ELSE LexFlush(L, L.p)

\* items of comment-free text, each with its first and last position
XLexItems(cs) == LexEnd(FoldLeft(LexStep, Lex0, cs)).out
Toks(items) == [j \in 1..Len(items) |-> items[j].t]

\* the sequence of lexical items of an ASN.1 text = items of the text with its comments blanked
XLex(cs) == Toks(XLexItems(BlankOf(cs, {})))

------------------------------------------------------------------------------
(* words that the standard lists as separate reserved words but that the   *)
(* implementation matches as one literal with a single space               *)

AffectedKeywords == <<"BIT STRING", "OCTET STRING", "OBJECT IDENTIFIER", "CHARACTER STRING", "ANY DEFINED BY",
                      "EXTENSIBILITY IMPLIED", "WITH SYNTAX", "WITH COMPONENT", "WITH COMPONENTS",
                      "WITH SUCCESSORS", "WITH DESCENDANTS", "COMPONENTS OF", "CONSTRAINED BY">>
AffectedPairs == {<<"BIT", "STRING">>, <<"OCTET", "STRING">>, <<"OBJECT", "IDENTIFIER">>, <<"CHARACTER", "STRING">>,
                  <<"ANY", "DEFINED">>, <<"DEFINED", "BY">>, <<"EXTENSIBILITY", "IMPLIED">>, <<"WITH", "SYNTAX">>,
                  <<"WITH", "COMPONENT">>, <<"WITH", "COMPONENTS">>, <<"WITH", "SUCCESSORS">>,
                  <<"WITH", "DESCENDANTS">>, <<"COMPONENTS", "OF">>, <<"CONSTRAINED", "BY">>}
\* further word sequences of X.680/X.681/X.682 (boundaries like any other for the implementation)
OtherWordPairs == {<<"SEQUENCE", "OF">>, <<"SET", "OF">>, <<"AUTOMATIC", "TAGS">>, <<"EXPLICIT", "TAGS">>,
                   <<"IMPLICIT", "TAGS">>, <<"ENCODED", "BY">>, <<"INSTANCE", "OF">>, <<"EMBEDDED", "PDV">>}
InAffectedKeyword(a, b) == <<a, b>> \in AffectedPairs
InMultiWord(a, b) == <<a, b>> \in AffectedPairs \cup OtherWordPairs

\* X.681 14.1: ObjectClassFieldType ::= DefinedObjectClass "." FieldName -- three items; the implementation
\* wants them glued.  Boundary j (between items j and j+1) lies inside such a reference:
InClassFieldRef(items, j) ==
  \/ items[j + 1].t = "." /\ j + 2 <= Len(items) /\ SubSeq(items[j + 2].t, 1, 1) = "&"
  \/ items[j].t = "." /\ SubSeq(items[j + 1].t, 1, 1) = "&"
\* reserved words the implementation recognises as such only when white-space (or the end) follows
SpaceHungryWords == {"END", "SEQUENCE", "ENUMERATED", "WITH"}
LayoutDevs == {DevMultiWordKeywordSingleSpace, DevClassFieldRefNoSpace, DevReservedWordNeedsSpace,
               DevCommentMarkerInString, DevStarSlashUnitInCode}

\* The token sequence as the implementation sees it under the deviations S: the items of the text
\* blanked with the scanner deviations of S and, per layout deviation of S, at every boundary of its
\* input class what the implementation's rule looks at (glued by exactly one space / abutting /
\* followed by white-space).  Two texts with the same items and the same marks are the same to it.
ImplView(cs, S) ==
  LET b == BlankOf(cs, S \cap ScannerDevs)
      items == XLexItems(b)
      gap(j) == items[j + 1].a - items[j].z - 1
      mark == [j \in 1..(IF Len(items) = 0 THEN 0 ELSE Len(items) - 1) |->
                 (IF DevMultiWordKeywordSingleSpace \in S /\ InAffectedKeyword(items[j].t, items[j + 1].t)
                  THEN (IF gap(j) = 1 /\ b[items[j].z + 1] = SP THEN "glued" ELSE "split") ELSE "-")
                 \o (IF DevClassFieldRefNoSpace \in S /\ InClassFieldRef(items, j)
                     THEN (IF gap(j) = 0 THEN "abut" ELSE "apart") ELSE "-")
                 \o (IF DevReservedWordNeedsSpace \in S /\ items[j].t \in SpaceHungryWords
                     THEN (IF gap(j) > 0 /\ b[items[j].z + 1] \in WhiteSpace THEN "ws" ELSE "nows") ELSE "-")]
  IN [toks |-> Toks(items), mark |-> mark]

=============================================================================
