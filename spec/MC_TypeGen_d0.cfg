SPECIFICATION Spec
CONSTANTS MaxDepth = 0
  Rich = TRUE
  TagDefs = {"E"}
INVARIANT Emit
INVARIANT ValuesAdmitted
