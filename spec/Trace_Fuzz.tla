------------------------------ MODULE Trace_Fuzz ----------------------------
(***************************************************************************)
(* Binding B for C08.  Each recorded line is one (type, codec) with the     *)
(* outcomes of decoding adversarial inputs: number of interpreter events   *)
(* (deterministic work), outcome class, innermost asn1tools frame.         *)
(* The decoder must return a value or raise within WorkBound(n, depth) -   *)
(* the bound that the reader model (X690Reader!StepBound: steps <= 2n + 2)  *)
(* transfers to the code with a constant factor per reader step - and the  *)
(* sentinel (a valid input decoded again after every adversarial input)    *)
(* must not change.                                                        *)
(***************************************************************************)
EXTENDS Asn1Value, TLC, TLCExt, Json, IOUtils

Tr == ndJsonDeserialize(IOEnv.TRACE_FILE)
VARIABLE i

\* events allowed for n input octets under a type of nesting depth d:
\* EventsPerStep interpreter events per reader step, (2n + 2) steps per level
EventsPerStep == 1000
WorkBound(n, d) == 5000 + (EventsPerStep * ((2 * n) + 2) * (d + 1))

\* peak memory allowed while decoding n octets: a constant plus a multiple of the input length
\* (the constant covers what depends on the type only: per.py formats a DecodeError that lists the 65 536 permitted
\* values of a BMPString, 1.4 MB for a five-octet input; allocations driven by a length field start at 16 MiB)
MemBound(n, d) == 8000000 + (4096 * n * (d + 1))

\* input class of a known finding: a SEQUENCE OF / SET OF whose element can have an EMPTY encoding
\* (NULL, single-value INTEGER, empty SEQUENCE, zero-size strings): the element count read from the
\* input is then not bounded by the remaining input
RECURSIVE ZeroWidth(_, _, _), HasZeroWidthList(_, _, _)
ZeroWidth(env, T, fuel) ==
  CASE T.k = "REF" -> fuel > 0 /\ ZeroWidth(env, env.types[T.name], fuel - 1)
    [] T.k = "NULL" -> TRUE
    [] T.k = "INT" -> T.con.f = "R" /\ ~T.con.ext /\ ~T.con.lbinf /\ ~T.con.ubinf /\ Eq(T.con.lb, T.con.ub)
    [] T.k \in {"OCTS", "BITS", "STR"} -> T.sz.f = "R" /\ ~T.sz.ext /\ ~T.sz.ubinf /\ T.sz.ub = 0
    [] T.k \in {"SEQ", "SET"} ->
         /\ ~T.ext
         /\ \A j \in 1..Len(T.root) : T.root[j].q = "M" /\ ZeroWidth(env, T.root[j].t, fuel)
    [] T.k = "ENUM" -> ~T.ext /\ Len(T.root) = 1
    [] OTHER -> FALSE
HasZeroWidthList(env, T, fuel) ==
  CASE T.k = "REF" -> fuel > 0 /\ HasZeroWidthList(env, env.types[T.name], fuel - 1)
    [] T.k \in {"SEQOF", "SETOF"} -> ZeroWidth(env, T.e, fuel) \/ HasZeroWidthList(env, T.e, fuel)
    [] T.k \in {"SEQ", "SET"} -> \E j \in 1..Len(AllMembers(T)) : HasZeroWidthList(env, AllMembers(T)[j].t, fuel)
    [] T.k = "CHOICE" -> \E j \in 1..Len(AllAlts(T)) : HasZeroWidthList(env, AllAlts(T)[j].t, fuel)
    [] OTHER -> FALSE

Applicable(L) ==
  IF L.codec \in {"per", "uper", "oer"} /\ HasZeroWidthList(L.env, L.env.types[L.top], 3)
  THEN " applicable:{\"ZeroWidthElementList\"}" ELSE " applicable:{}"

V(k, verdict, detail) == [vi |-> k, codec |-> "", ne |-> FALSE, check |-> "FUZZ", verdict |-> verdict, detail |-> detail]

ObsVerdict(L, k) ==
  LET o == L.obs[k] IN
  IF o.mem > MemBound(o.n, L.depth) THEN V(k, "reject", "dec-memory:" \o o.cls \o "@" \o o.site \o Applicable(L))
  ELSE IF o.st = "budget" THEN V(k, "reject", "dec-budget@" \o o.site \o Applicable(L))
  ELSE IF o.st = "timeout" THEN V(k, "reject", "dec-timeout@" \o o.site \o Applicable(L))
  ELSE IF o.ev > WorkBound(o.n, L.depth) THEN V(k, "reject", "dec-work@" \o o.site \o Applicable(L))
  ELSE V(k, "ok", "")

LineReport(L) ==
  LET all == [k \in 1..Len(L.obs) |-> [ObsVerdict(L, k) EXCEPT !.codec = L.codec]] \o
             (IF L.sentinel # "" THEN <<[V(0, "reject", "sentinel-changed") EXCEPT !.codec = L.codec]>> ELSE <<>>)
  IN [cid |-> L.cid, n |-> L.inputs,
      ok |-> L.inputs - Len(SelectSeq(all, LAMBDA r : r.verdict # "ok")),
      other |-> SelectSeq(all, LAMBDA r : r.verdict # "ok")]

TEmit(r) ==
  Serialize(ToJson(r) \o "\n", IOEnv.VERDICT_FILE,
            [format |-> "TXT", charset |-> "UTF-8", openOptions |-> <<"WRITE", "CREATE", "APPEND">>]).exitValue = 0

Init == i = 1
Next == i <= Len(Tr) /\ TEmit(LineReport(Tr[i])) /\ i' = i + 1
Spec == Init /\ [][Next]_i
TraceAccepted == TLCGet("stats").diameter - 1 = Len(Tr)
=============================================================================
