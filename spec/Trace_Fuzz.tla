------------------------------ MODULE Trace_Fuzz ----------------------------
(***************************************************************************)
(* Binding B for C08.  Each recorded line is one (type, codec) with the     *)
(* outcomes of decoding adversarial inputs: number of interpreter events   *)
(* (deterministic work), outcome class, innermost asn1tools frame.         *)
(* The decoder must return a value or raise within WorkBound(n, depth) -   *)
(* the bound that the reader model (X690Reader!StepBound: steps <= 2n + 2)  *)
(* transfers to the code with a constant factor per reader step - and the  *)
(* sentinel (a valid input decoded again after every adversarial input)    *)
(* must not change.                                                        *)
(***************************************************************************)
EXTENDS Bits, TLC, TLCExt, Json, IOUtils

Tr == ndJsonDeserialize(IOEnv.TRACE_FILE)
VARIABLE i

\* events allowed for n input octets under a type of nesting depth d:
\* EventsPerStep interpreter events per reader step, (2n + 2) steps per level
EventsPerStep == 1000
WorkBound(n, d) == 5000 + (EventsPerStep * ((2 * n) + 2) * (d + 1))

\* peak memory allowed while decoding n octets: a constant plus a multiple of the input length
MemBound(n, d) == 1000000 + (4096 * n * (d + 1))

V(k, verdict, detail) == [vi |-> k, codec |-> "", ne |-> FALSE, check |-> "FUZZ", verdict |-> verdict, detail |-> detail]

ObsVerdict(L, k) ==
  LET o == L.obs[k] IN
  IF o.st = "budget" THEN V(k, "reject", "dec-budget@" \o o.site)
  ELSE IF o.st = "timeout" THEN V(k, "reject", "dec-timeout@" \o o.site)
  ELSE IF o.ev > WorkBound(o.n, L.depth) THEN V(k, "reject", "dec-work@" \o o.site)
  ELSE IF o.mem > MemBound(o.n, L.depth) THEN V(k, "reject", "dec-memory:" \o o.cls \o "@" \o o.site)
  ELSE V(k, "ok", "")

LineReport(L) ==
  LET all == [k \in 1..Len(L.obs) |-> [ObsVerdict(L, k) EXCEPT !.codec = L.codec]] \o
             (IF L.sentinel # "" THEN <<[V(0, "reject", "sentinel-changed") EXCEPT !.codec = L.codec]>> ELSE <<>>)
  IN [cid |-> L.cid, n |-> L.inputs,
      ok |-> L.inputs - Len(SelectSeq(all, LAMBDA r : r.verdict # "ok")),
      other |-> SelectSeq(all, LAMBDA r : r.verdict # "ok")]

TEmit(r) ==
  Serialize(ToJson(r) \o "\n", IOEnv.VERDICT_FILE,
            [format |-> "TXT", charset |-> "UTF-8", openOptions |-> <<"WRITE", "CREATE", "APPEND">>]).exitValue = 0

Init == i = 1
Next == i <= Len(Tr) /\ TEmit(LineReport(Tr[i])) /\ i' = i + 1
Spec == Init /\ [][Next]_i
TraceAccepted == TLCGet("stats").diameter - 1 = Len(Tr)
=============================================================================
