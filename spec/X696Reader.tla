----------------------------- MODULE X696Reader -----------------------------
(***************************************************************************)
(* ITU-T X.696 read side: a type-directed reader of Basic OER over          *)
(* (octets, position), written independently of the encoder X696!OerEnc.    *)
(* Results as in X691Reader:  [ok, v, p]  or  [ok |-> FALSE, why, p];        *)
(* positions are 1-based octet indices.  REAL, OBJECT IDENTIFIER and        *)
(* character strings are returned as [raw |-> contents octets] (their       *)
(* contents are those of X.690) and compared by OMatches.                   *)
(*                                                                         *)
(* The reader accepts what a Basic-OER sender may send: length determinants *)
(* in any long form (8.6.5), DEFAULT-valued components present or absent.   *)
(* Checked by TLC over TypeGen's universe (ModelProps!OerReaderInverts,     *)
(* ModelProps!OerPrefixFree): it inverts the encoder, consumes exactly the  *)
(* encoding, and no strict prefix of an encoding can be read (C16 on the    *)
(* model for OER).                                                         *)
(***************************************************************************)
EXTENDS X696

OUnknownItem == "?unknown"
OOk(v, p) == [ok |-> TRUE, v |-> v, p |-> p]
OFail(why, p) == [ok |-> FALSE, why |-> why, p |-> p]

OOcts(bs, p, n) ==
  IF p + n - 1 > Len(bs) THEN OFail("out-of-data", p) ELSE OOk(SubSeq(bs, p, p + n - 1), p + n)

\* 8.6 length determinant (short form, long form with any number of length octets)
OLength(bs, p) ==
  LET h == OOcts(bs, p, 1) IN
  IF ~h.ok THEN h
  ELSE IF h.v[1] < 128 THEN OOk(h.v[1], h.p)
  ELSE LET k == h.v[1] - 128
           r == OOcts(bs, h.p, k)
       IN IF k = 0 THEN OFail("length of length 0", p)
          ELSE IF ~r.ok THEN r
          ELSE IF Len(MagNorm(r.v)) > 3 THEN OFail("length beyond the model's integers", p)
          ELSE OOk(OctetsToNat(r.v), r.p)

\* a length determinant followed by that many octets
OLengthPrefixed(bs, p) ==
  LET l == OLength(bs, p) IN IF ~l.ok THEN l ELSE OOcts(bs, l.p, l.v)

------------------------------------------------------------------------------
(* 10 INTEGER                                                               *)

OInteger(T, bs, p) ==
  LET c == OerIntCon(T.con, {})
      varSigned == LET r == OLengthPrefixed(bs, p) IN
                   IF ~r.ok THEN r ELSE IF r.v = <<>> THEN OFail("empty integer", p) ELSE OOk(FromTwos(r.v), r.p)
      varUnsigned == LET r == OLengthPrefixed(bs, p) IN
                     IF ~r.ok THEN r ELSE IF r.v = <<>> THEN OFail("empty integer", p) ELSE OOk(Mk(FALSE, MagNorm(r.v)), r.p)
      fixU(n) == LET r == OOcts(bs, p, n) IN IF ~r.ok THEN r ELSE OOk(Mk(FALSE, MagNorm(r.v)), r.p)
      fixS(n) == LET r == OOcts(bs, p, n) IN IF ~r.ok THEN r ELSE OOk(FromTwos(r.v), r.p)
  IN IF c.f = "N" \/ c.lbinf THEN varSigned
     ELSE IF ~c.lb.neg
          THEN (IF c.ubinf THEN varUnsigned
                ELSE IF Leq(c.ub, FromInt(255)) THEN fixU(1)
                ELSE IF Leq(c.ub, FromInt(65535)) THEN fixU(2)
                ELSE IF Lt(c.ub, B8(32)) THEN fixU(4)
                ELSE IF Lt(c.ub, B8(64)) THEN fixU(8)
                ELSE varUnsigned)
     ELSE (IF c.ubinf THEN varSigned
           ELSE IF Leq(FromInt(-128), c.lb) /\ Leq(c.ub, FromInt(127)) THEN fixS(1)
           ELSE IF Leq(FromInt(-32768), c.lb) /\ Leq(c.ub, FromInt(32767)) THEN fixS(2)
           ELSE IF Leq(Neg(B8(31)), c.lb) /\ Lt(c.ub, B8(31)) THEN fixS(4)
           ELSE IF Leq(Neg(B8(63)), c.lb) /\ Lt(c.ub, B8(63)) THEN fixS(8)
           ELSE varSigned)

\* 11 ENUMERATED
OEnumerated(T, bs, p) ==
  LET h == OOcts(bs, p, 1)
      items == AllAlts(T)
      named(n, q) == IF \E j \in 1..Len(items) : items[j].v = n
                     THEN OOk(items[CHOOSE j \in 1..Len(items) : items[j].v = n].n, q)
                     ELSE OOk(OUnknownItem, q)
  IN IF ~h.ok THEN h
     ELSE IF h.v[1] < 128 THEN named(h.v[1], h.p)
     ELSE LET k == h.v[1] - 128
              r == OOcts(bs, h.p, k)
          IN IF k = 0 THEN OFail("enumerated long form of length 0", p)
             ELSE IF ~r.ok THEN r
             ELSE LET x == FromTwos(r.v) IN
                  IF ~FitsInt(x) THEN OFail("enumeration value beyond the model's integers", p) ELSE named(ToInt(x), r.p)

\* 13 BIT STRING
OBitString(T, bs, p) ==
  IF OerFixedSize(T.sz)
  THEN LET n == T.sz.ub
           r == OOcts(bs, p, (n + 7) \div 8)
       IN IF ~r.ok THEN r ELSE OOk([n |-> n, b |-> r.v], r.p)
  ELSE LET r == OLengthPrefixed(bs, p) IN
       IF ~r.ok THEN r
       ELSE IF r.v = <<>> THEN OFail("bit string without the unused-bits octet", p)
       ELSE IF r.v[1] > 7 \/ (Len(r.v) = 1 /\ r.v[1] # 0) THEN OFail("unused bits", p)
       ELSE OOk([n |-> 8 * (Len(r.v) - 1) - r.v[1], b |-> Tail(r.v)], r.p)

\* 14 OCTET STRING
OOctetString(T, bs, p) ==
  IF OerFixedSize(T.sz) THEN OOcts(bs, p, T.sz.ub) ELSE OLengthPrefixed(bs, p)

\* 27 restricted character strings: contents octets
OString(T, bs, p) ==
  LET r == IF OerFixedSize(T.sz) /\ OerCharWidth(T.st) > 0
           THEN OOcts(bs, p, T.sz.ub * OerCharWidth(T.st)) ELSE OLengthPrefixed(bs, p)
  IN IF ~r.ok THEN r ELSE OOk([raw |-> r.v], r.p)

ORaw(bs, p) == LET r == OLengthPrefixed(bs, p) IN IF ~r.ok THEN r ELSE OOk([raw |-> r.v], r.p)

\* 8.7 tag octets
OTag(bs, p) ==
  LET h == OOcts(bs, p, 1) IN
  IF ~h.ok THEN h
  ELSE LET cls == ClassOf(h.v[1])
           low == h.v[1] % 64
       IN IF low < 63 THEN OOk([cls |-> cls, num |-> low], h.p)
          ELSE \* base-128 continuation octets: at most four in the model
               LET more(q) == OOcts(bs, q, 1)
                   o1 == more(h.p)
               IN IF ~o1.ok THEN o1
                  ELSE IF o1.v[1] < 128 THEN OOk([cls |-> cls, num |-> o1.v[1]], o1.p)
                  ELSE LET o2 == more(o1.p) IN
                       IF ~o2.ok THEN o2
                       ELSE IF o2.v[1] < 128 THEN OOk([cls |-> cls, num |-> (o1.v[1] - 128) * 128 + o2.v[1]], o2.p)
                       ELSE LET o3 == more(o2.p) IN
                            IF ~o3.ok THEN o3
                            ELSE IF o3.v[1] < 128
                                 THEN OOk([cls |-> cls, num |-> ((o1.v[1] - 128) * 128 + (o2.v[1] - 128)) * 128 + o3.v[1]], o3.p)
                                 ELSE LET o4 == more(o3.p) IN
                                      IF ~o4.ok THEN o4
                                      ELSE IF o4.v[1] >= 128 THEN OFail("tag number beyond the model", p)
                                      ELSE OOk([cls |-> cls,
                                                num |-> (((o1.v[1] - 128) * 128 + (o2.v[1] - 128)) * 128 + (o3.v[1] - 128)) * 128 + o4.v[1]], o4.p)

------------------------------------------------------------------------------
(* constructed types                                                        *)

RECURSIVE OerRead(_, _, _, _), OMembers(_, _, _, _, _)

OMembers(env, ms, pres, bs, p) ==
  FoldLeft(LAMBDA acc, j :
             IF ~acc.ok THEN acc
             ELSE IF ~pres[j] THEN OOk(Append(acc.v, [n |-> ms[j].n, pv |-> Absent]), acc.p)
             ELSE LET r == OerRead(env, ms[j].t, bs, acc.p) IN
                  IF ~r.ok THEN OFail(ms[j].n \o ": " \o r.why, r.p)
                  ELSE OOk(Append(acc.v, [n |-> ms[j].n, pv |-> Present(r.v)]), r.p),
           OOk(<<>>, p), [j \in 1..Len(ms) |-> j])

OAbsentMembers(ms) == [j \in 1..Len(ms) |-> [n |-> ms[j].n, pv |-> Absent]]
OAddMembers(a) == IF a.g THEN a.ms ELSE <<a.m>>

\* 16 SEQUENCE / 18 SET
OSequence(env, T, bs, p) ==
  LET order == IF T.k = "SET" THEN CanonicalOrder(env, T) ELSE [i \in 1..Len(T.root) |-> i]
      root == [i \in 1..Len(order) |-> T.root[order[i]]]
      ext == IsExt(env, T)
      optIdx == SelectSeq([j \in 1..Len(root) |-> j], LAMBDA j : root[j].q # "M")
      nbits == (IF ext THEN 1 ELSE 0) + Len(optIdx)
      pre == OOcts(bs, p, (nbits + 7) \div 8)                                    \* 16.2 preamble, zero padded
  IN IF ~pre.ok THEN pre
     ELSE LET bits == BytesToBits(pre.v)
              pad == SubSeq(bits, nbits + 1, Len(bits))
              off == IF ext THEN 1 ELSE 0
              pres == [j \in 1..Len(root) |->
                         IF root[j].q = "M" THEN TRUE
                         ELSE bits[off + (CHOOSE h \in 1..Len(optIdx) : optIdx[h] = j)] = 1]
              toValue(pairs) == [nm \in {pairs[j].n : j \in 1..Len(pairs)} |->
                                   pairs[CHOOSE j \in 1..Len(pairs) : pairs[j].n = nm].pv]
              noAdds == Concat([a \in 1..Len(T.adds) |-> OAbsentMembers(OAddMembers(T.adds[a]))])
          IN IF \E j \in 1..Len(pad) : pad[j] = 1 THEN OFail("preamble padding not zero", p)
             ELSE LET rm == OMembers(env, root, pres, bs, pre.p) IN
                  IF ~rm.ok THEN rm
                  ELSE IF ~ext \/ bits[1] = 0 THEN OOk(toValue(rm.v \o noAdds), rm.p)
                  ELSE \* 16.4: extension addition presence bitmap (a BIT STRING with length), then the additions as open types
                       LET bm == OLengthPrefixed(bs, rm.p) IN
                       IF ~bm.ok THEN bm
                       ELSE IF bm.v = <<>> \/ bm.v[1] > 7 THEN OFail("extension bitmap", rm.p)
                       ELSE LET nb == 8 * (Len(bm.v) - 1) - bm.v[1]
                                mbits == BytesToBits(Tail(bm.v))
                                step(acc, a) ==
                                  IF ~acc.ok THEN acc
                                  ELSE IF mbits[a] = 0
                                       THEN (IF a > Len(T.adds) THEN acc
                                             ELSE OOk(acc.v \o OAbsentMembers(OAddMembers(T.adds[a])), acc.p))
                                       ELSE LET o == OLengthPrefixed(bs, acc.p) IN
                                            IF ~o.ok THEN o
                                            ELSE IF a > Len(T.adds) THEN OOk(acc.v, o.p)       \* unknown addition: skipped
                                            ELSE LET inner ==
                                                       IF T.adds[a].g
                                                       THEN \* 16.4.x: a group is encoded as a SEQUENCE of its members
                                                            OerRead(env, [k |-> "SEQ", tags |-> <<>>, root |-> T.adds[a].ms,
                                                                          ext |-> FALSE, adds |-> <<>>], o.v, 1)
                                                       ELSE OerRead(env, T.adds[a].m.t, o.v, 1)
                                                 IN IF ~inner.ok THEN OFail("in addition: " \o inner.why, acc.p)
                                                    ELSE IF T.adds[a].g
                                                         THEN OOk(acc.v \o [h \in 1..Len(T.adds[a].ms) |->
                                                                     [n |-> T.adds[a].ms[h].n, pv |-> inner.v[T.adds[a].ms[h].n]]], o.p)
                                                         ELSE OOk(Append(acc.v, [n |-> T.adds[a].m.n, pv |-> Present(inner.v)]), o.p)
                                ra == FoldLeft(step, OOk(<<>>, bm.p), [a \in 1..nb |-> a])
                                missing == Concat([a \in 1..Len(T.adds) |->
                                             IF a <= nb THEN <<>> ELSE OAbsentMembers(OAddMembers(T.adds[a]))])
                            IN IF ~ra.ok THEN ra ELSE OOk(toValue(rm.v \o ra.v \o missing), ra.p)

\* octets of an element whose encoding has a fixed size (-1: it has not)
OFixedElemOctets(env, E) ==
  LET b == Base(env, E) IN
  CASE b.k = "BOOL" -> 1
    [] b.k = "NULL" -> 0
    [] b.k = "INT" ->
         LET c == OerIntCon(b.con, {}) IN
         IF c.f = "N" \/ c.lbinf \/ c.ubinf THEN -1
         ELSE IF ~c.lb.neg
              THEN (IF Leq(c.ub, FromInt(255)) THEN 1 ELSE IF Leq(c.ub, FromInt(65535)) THEN 2
                    ELSE IF Lt(c.ub, B8(32)) THEN 4 ELSE IF Lt(c.ub, B8(64)) THEN 8 ELSE -1)
         ELSE (IF Leq(FromInt(-128), c.lb) /\ Leq(c.ub, FromInt(127)) THEN 1
               ELSE IF Leq(FromInt(-32768), c.lb) /\ Leq(c.ub, FromInt(32767)) THEN 2
               ELSE IF Leq(Neg(B8(31)), c.lb) /\ Lt(c.ub, B8(31)) THEN 4
               ELSE IF Leq(Neg(B8(63)), c.lb) /\ Lt(c.ub, B8(63)) THEN 8 ELSE -1)
    [] OTHER -> -1

\* 17 SEQUENCE OF / 19 SET OF: quantity, then the elements
OSequenceOf(env, T, bs, p) ==
  LET q == OLengthPrefixed(bs, p)
      w == OFixedElemOctets(env, T.e)
  IN
  IF ~q.ok THEN q
  ELSE IF q.v = <<>> \/ Len(MagNorm(q.v)) > 3 THEN OFail("quantity", p)
  ELSE IF w >= 0      \* elements of a fixed size: read in place (no sequential dependency)
       THEN LET n == OctetsToNat(q.v) IN
            IF q.p + (n * w) - 1 > Len(bs) THEN OFail("out-of-data", q.p)
            ELSE OOk([j \in 1..n |-> OerRead(env, T.e, bs, q.p + ((j - 1) * w)).v], q.p + (n * w))
  ELSE FoldLeft(LAMBDA acc, j :
                  IF ~acc.ok THEN acc
                  ELSE LET r == OerRead(env, T.e, bs, acc.p) IN
                       IF ~r.ok THEN r ELSE OOk(Append(acc.v, r.v), r.p),
                OOk(<<>>, q.p), [j \in 1..OctetsToNat(q.v) |-> j])

\* 20 CHOICE: the tag selects the alternative
OChoice(env, T, bs, p) ==
  LET tg == OTag(bs, p)
      alts == AllAlts(T)
      tagOf(i) == MinTag(OuterTags(env, ComponentType(env, T, i)))
  IN IF ~tg.ok THEN tg
     ELSE IF \E i \in 1..Len(alts) : tagOf(i) = tg.v
          THEN LET i == CHOOSE i \in 1..Len(alts) : tagOf(i) = tg.v IN
               IF i <= Len(T.root)
               THEN LET x == OerRead(env, alts[i].t, bs, tg.p) IN
                    IF ~x.ok THEN OFail(alts[i].n \o ": " \o x.why, x.p) ELSE OOk([a |-> alts[i].n, v |-> x.v], x.p)
               ELSE LET o == OLengthPrefixed(bs, tg.p) IN                                \* extension alternative: open type
                    IF ~o.ok THEN o
                    ELSE LET x == OerRead(env, alts[i].t, o.v, 1) IN
                         IF ~x.ok THEN OFail(alts[i].n \o ": " \o x.why, tg.p) ELSE OOk([a |-> alts[i].n, v |-> x.v], o.p)
     ELSE IF IsExt(env, T)
          THEN LET o == OLengthPrefixed(bs, tg.p) IN                                      \* unknown alternative: skipped
               IF ~o.ok THEN o ELSE OOk([a |-> OUnknownItem, v |-> "NULL"], o.p)
     ELSE OFail("unknown alternative", p)

OerRead(env, T, bs, p) ==
  CASE T.k = "REF" -> OerRead(env, env.types[T.name], bs, p)
    [] T.k = "BOOL" -> LET r == OOcts(bs, p, 1) IN IF ~r.ok THEN r ELSE OOk(r.v[1] # 0, r.p)
    [] T.k = "NULL" -> OOk("NULL", p)
    [] T.k = "INT" -> OInteger(T, bs, p)
    [] T.k = "ENUM" -> OEnumerated(T, bs, p)
    [] T.k \in {"REAL", "OID"} -> ORaw(bs, p)
    [] T.k = "BITS" -> OBitString(T, bs, p)
    [] T.k = "OCTS" -> OOctetString(T, bs, p)
    [] T.k = "STR" -> OString(T, bs, p)
    [] T.k \in {"SEQ", "SET"} -> OSequence(env, T, bs, p)
    [] T.k \in {"SEQOF", "SETOF"} -> OSequenceOf(env, T, bs, p)
    [] T.k = "CHOICE" -> OChoice(env, T, bs, p)

\* a complete encoding: everything is consumed
OerDecode(env, T, octs) ==
  LET r == OerRead(env, T, octs, 1) IN
  IF ~r.ok THEN r ELSE IF r.p # Len(octs) + 1 THEN OFail("octets left over", r.p) ELSE r

------------------------------------------------------------------------------
RECURSIVE OMatches(_, _, _, _)
OMatches(env, T, v, rv) ==
  CASE T.k = "REF" -> OMatches(env, env.types[T.name], v, rv)
    [] T.k = "REAL" -> rv.raw = RealContents(v)
    [] T.k = "OID" -> rv.raw = OidContents(v)
    [] T.k = "STR" -> rv.raw = StringContents(T.st, v)
    [] T.k = "BITS" -> IF T.nb # <<>> THEN TrimBits(rv) = TrimBits(v) ELSE rv = v
    [] T.k \in {"SEQ", "SET"} ->
         LET ms == AllMembers(T) IN
         \A j \in 1..Len(ms) :
            LET m == ms[j]  a == v[m.n]  b == rv[m.n] IN
            IF b.p THEN a.p /\ OMatches(env, m.t, a.v, b.v)
            ELSE ~a.p \/ (m.q = "D" /\ AbsEq(env, m.t, a.v, m.d))
    [] T.k = "CHOICE" ->
         LET alts == AllAlts(T) IN
         rv.a = v.a /\ OMatches(env, alts[MemberIndex(alts, v.a)].t, v.v, rv.v)
    [] T.k \in {"SEQOF", "SETOF"} -> Len(rv) = Len(v) /\ \A j \in 1..Len(v) : OMatches(env, T.e, v[j], rv[j])
    [] OTHER -> rv = v

=============================================================================
