----------------------------- MODULE Trace_Text -----------------------------
(***************************************************************************)
(* Binding B for C02 (text codecs): one recorded line per case (a type,    *)
(* its values, and for each value x codec x numeric_enums the documents    *)
(* the real library wrote with indent none / 0 / 1 / 4, what an            *)
(* independent JSON / XML reader made of them, and what the library's own  *)
(* decoder returned).  One action consumes one line and judges every       *)
(* document:                                                               *)
(*                                                                         *)
(*   ENC@i   the encoder returned a document                               *)
(*   WF@i    the independent reader accepted it (JSON / well-formed XML)    *)
(*   TREE@i  the recorded tree is the tree of Jer.tla / Xer.tla for (T, v) *)
(*           -- under S = {} or a benign deviation: ok; under another      *)
(*           named deviation set: dev; otherwise reject                    *)
(*   REAL@i  every REAL leaf is a number that denotes exactly the double   *)
(*   RT@i    the library's decoder returned a value AbsEq to v             *)
(*                                                                         *)
(* A rejected document does not stop the run: the report of the line is    *)
(* appended to VERDICT_FILE and the next line is consumed.                 *)
(***************************************************************************)
EXTENDS Jer, Xer, TLC, TLCExt, Json, IOUtils

Tr == ndJsonDeserialize(IOEnv.TRACE_FILE)

VARIABLE i
vars == <<i>>

Has(r, f) == f \in DOMAIN r

ExcKey(phase, o) ==
  IF o.st = "exc" THEN phase \o "-exc:" \o o.cls \o "@" \o o.site
  ELSE IF o.st = "timeout" THEN phase \o "-timeout@" \o o.site
  ELSE phase \o "-bad:" \o o.msg

Clip(s) == IF Len(s) > 700 THEN SubSeq(s, 1, 700) \o "..." ELSE s

V(check, verdict, detail) == [check |-> check, verdict |-> verdict, detail |-> detail]

------------------------------------------------------------------------------
(* input classes of REAL values (predicates over a leaf value) that the     *)
(* known findings of XER REAL refer to                                      *)

\* xer.Real.encode formats str(x) + "E" + exponent after dividing |x| >= 10 by 10
\* repeatedly: PLUS/MINUS-INFINITY never leaves the loop
XerRealInfinite(x) == x.c \in {"PINF", "NINF"}
\* 0 < |x| < 10^-4: str(x) already has an exponent ("1e-05"), the text "1e-05E0" is not a realnumber
XerRealTiny(x) == RealAbsBelowTenToMinus4(x)
\* |x| >= 10: the mantissa went through one or more floating-point divisions by 10
XerRealScaled(x) == RealAbsAtLeastTen(x)

XerRealClasses(x) ==
  (IF XerRealTiny(x) THEN {"XerRealTiny"} ELSE {}) \cup (IF XerRealScaled(x) THEN {"XerRealScaled"} ELSE {})

\* a SEQUENCE / SET value in which a mandatory component of an extension addition (or of an
\* addition group) is absent -- the value a sender of an earlier version has (X.680 25.x; Admits
\* admits it); the text codecs demand every component that is not OPTIONAL / DEFAULT
AbsentMandatoryAddition(env, T, v) ==
  LET ns == TxSeqNodes(env, T, v) IN
  \E h \in 1..Len(ns) :
     LET ty == ns[h][1]  x == ns[h][2]  ms == AllMembers(ty) IN
     \E g \in (Len(ty.root) + 1)..Len(ms) : ms[g].q = "M" /\ ~x[ms[g].n].p

\* an absent component `x NULL DEFAULT NULL`: the compiled default is Python None, which the codecs
\* read as "no default", so the text encoders demand the component
AbsentNullDefault(env, T, v) ==
  LET ns == TxSeqNodes(env, T, v) IN
  \E h \in 1..Len(ns) :
     LET ty == ns[h][1]  x == ns[h][2]  ms == AllMembers(ty) IN
     \E g \in 1..Len(ms) : ms[g].q = "D" /\ Base(env, ms[g].t).k = "NULL" /\ ~x[ms[g].n].p

HasRealLeaf(env, T, v, P(_)) == TxAnyLeaf(env, T, v, LAMBDA t, x : t.k = "REAL" /\ P(x))

------------------------------------------------------------------------------
(* judging the documents of one observation (value x codec x numeric_enums) *)

Devs(codec) == IF codec = "jer" THEN JerDevs ELSE XerDevs
Benign(codec) == IF codec = "jer" THEN JerBenign ELSE XerBenign

TreeOf(L, o, v, S) ==
  IF o.codec = "jer" THEN JerTree(L.env, L.env.types[L.top], v, o.ne, S) ELSE XerDoc(L.env, L.top, v, S)

Matches(codec, e, r, strict) == IF codec = "jer" THEN JerMatch(e, r, strict) ELSE XerMatch(e, r, strict)

\* result of comparing one recorded tree with the mapping:
\*   [res: "std" | "benign" | "dev" | "none", S: explaining deviation set, e: the tree of the mapping that matched]
TreeJudgement(L, o, v, rec) ==
  LET std == TreeOf(L, o, v, {})
  IN IF Matches(o.codec, std, rec, FALSE) THEN [res |-> "std", S |-> {}, e |-> std]
     ELSE LET cands == TxDevCandidates(Devs(o.codec))
              hit == SelectSeq(cands, LAMBDA S : Matches(o.codec, TreeOf(L, o, v, S), rec, FALSE))
          IN IF hit = <<>> THEN [res |-> "none", S |-> {}, e |-> std]
             ELSE [res |-> IF hit[1] \subseteq Benign(o.codec) THEN "benign" ELSE "dev",
                   S |-> hit[1], e |-> TreeOf(L, o, v, hit[1])]

\* the REAL leaves: [bad: leaves that are not the double, classes: input classes of the bad ones, unexplained: BOOLEAN]
RealJudgement(codec, tj, rec) ==
  LET pairs == IF codec = "jer" THEN JerRealPairs(tj.e, rec) ELSE XerRealPairs(tj.e, rec)
      leafOk(p) == IF codec = "jer" THEN JerRealLeafOk(p) ELSE XerRealLeafOk(p)
      bad == SelectSeq(pairs, LAMBDA p : ~leafOk(p))
      cls(p) == IF codec = "xer" THEN XerRealClasses(p[1]) ELSE {}
  IN [n |-> Len(pairs), bad |-> Len(bad),
      classes |-> UNION {cls(bad[h]) : h \in 1..Len(bad)},
      unexplained |-> \E h \in 1..Len(bad) : cls(bad[h]) = {},
      first |-> IF bad = <<>> THEN "" ELSE
                  "expected " \o ToString(bad[1][1]) \o " recorded " \o ToString(bad[1][2].fl)
                  \o (IF codec = "xer" THEN " text " \o ToString(bad[1][2].text) ELSE "")]

App(S) == IF S = {} THEN "" ELSE " applicable:" \o ToString(S)

\* verdicts of one document d; first = the first document of the observation (for "same" / "dsame")
DocVerdicts(L, o, v, d, first, tjFirst) ==
  LET env == L.env
      T == env.types[L.top]
      at(c) == c
      \* what may excuse a failing encoder: only the failure the class predicts
      encClasses == (IF o.codec = "xer" /\ d.enc.st = "timeout" /\ HasRealLeaf(env, T, v, XerRealInfinite)
                     THEN {"XerRealInfinite"} ELSE {})
                    \cup (IF d.enc.st = "exc" /\ d.enc.cls = "EncodeError" /\ AbsentMandatoryAddition(env, T, v)
                          THEN {"AbsentMandatoryAddition"} ELSE {})
                    \cup (IF d.enc.st = "exc" /\ d.enc.cls = "EncodeError" /\ AbsentNullDefault(env, T, v)
                          THEN {"AbsentNullDefault"} ELSE {})
  IN
  IF d.enc.st # "ok" THEN <<V(at("ENC"), "reject", ExcKey("enc", d.enc) \o App(encClasses))>>
  ELSE IF ~d.wf.ok THEN
       <<V(at("ENC"), "ok", ""),
         V(at("WF"), "reject", "not well-formed: " \o d.wf.msg)>>
  ELSE
  LET same == Has(d, "same")
      rec == IF same THEN first.tree ELSE d.tree
      tj == IF same \/ d.ind = first.ind THEN tjFirst ELSE TreeJudgement(L, o, v, rec)
      devOnly == tj.S \ Benign(o.codec)
      rj == IF tj.res = "none" THEN [n |-> 0, bad |-> 0, classes |-> {}, unexplained |-> FALSE, first |-> ""]
            ELSE RealJudgement(o.codec, tj, rec)
      treeV == CASE tj.res = "std" -> V(at("TREE"), "ok", "")
                 [] tj.res = "benign" -> V(at("TREE"), "ok", "")
                 [] tj.res = "dev" -> V(at("TREE"), "dev", ToString(devOnly))
                 [] OTHER -> V(at("TREE"), "reject", "document tree is not the tree of the mapping under any known deviation; recorded " \o Clip(ToString(rec)))
      \* judged only where the document has REAL number leaves (and its tree was matched)
      realV == IF tj.res = "none" \/ rj.n = 0 THEN <<>>
               ELSE IF rj.bad = 0 THEN <<V(at("REAL"), "ok", "")>>
               ELSE <<V(at("REAL"), "reject", "REAL leaf does not denote the value: " \o rj.first
                        \o (IF rj.unexplained THEN "" ELSE App(rj.classes)))>>
      \* what may excuse a failing decode: the non-benign deviations seen in this very document and the
      \* classes of its REAL leaves that were found wrong
      excuse == devOnly \cup (IF rj.unexplained THEN {} ELSE rj.classes)
      dec == IF Has(d, "dsame") THEN first.dec ELSE d.dec
      rtV == IF dec.st # "ok" THEN V(at("RT"), "reject", ExcKey("dec", dec) \o App(excuse))
             ELSE IF ~AbsEq(env, T, v, dec.v) THEN V(at("RT"), "reject", "decoded value differs" \o App(excuse))
             ELSE V(at("RT"), "ok", "")
  IN <<V(at("ENC"), "ok", ""), V(at("WF"), "ok", ""), treeV>> \o realV \o <<rtV>>

\* [vs: the verdicts of one observation, bn: benign deviations seen in its first document (reported, not judged)]
ObsJudge(L, o) ==
  LET only(x) == [vs |-> <<x>>, bn |-> {}] IN
  IF Has(o, "machinery") THEN only(V("ANY", "machinery", o.machinery))
  ELSE IF Has(o, "compile") THEN only(V("ANY", "skip", "not compilable: " \o ExcKey("compile", o.compile)))
  ELSE LET env == L.env
           T == env.types[L.top]
           v == L.vals[o.vi]
       IN IF ~Admits(env, T, v) THEN only(V("ANY", "skip", "value not admitted"))
          ELSE IF o.codec = "xer" /\ ~XerRepresentable(env, T, v)
               THEN only(V("ANY", "skip", "a character of the value is not an XML 1.0 Char"))
          ELSE IF o.codec = "jer" /\ ~JerRepresentable(env, T, v)
               THEN only(V("ANY", "skip", "a character of the value is not a Unicode scalar value"))
          ELSE LET first == o.docs[1]
                   tjFirst == IF first.enc.st = "ok" /\ first.wf.ok /\ Has(first, "tree")
                              THEN TreeJudgement(L, o, v, first.tree)
                              ELSE [res |-> "none", S |-> {}, e |-> JNull]
                   fv == DocVerdicts(L, o, v, first, first, tjFirst)
                   \* a document with the same recorded tree and the same decoder outcome as the first one
                   \* gets the first one's verdicts
                   asFirst(d) == d.enc.st = "ok" /\ d.wf.ok /\ Has(d, "same") /\ Has(d, "dsame")
                   dv(h) == IF h = 1 \/ asFirst(o.docs[h]) THEN fv ELSE DocVerdicts(L, o, v, o.docs[h], first, tjFirst)
                   named(h) == LET vs == dv(h) IN [g \in 1..Len(vs) |-> V(vs[g].check \o "@" \o o.docs[h].ind, vs[g].verdict, vs[g].detail)]
               IN [vs |-> Concat([h \in 1..Len(o.docs) |-> named(h)]),
                   bn |-> tjFirst.S \cap Benign(o.codec)]

LineReport(L) ==
  LET judged == Force([h \in 1..Len(L.obs) |-> ObsJudge(L, L.obs[h])])
      per == [h \in 1..Len(L.obs) |->
                LET vs == judged[h].vs
                IN [g \in 1..Len(vs) |-> [vi |-> L.obs[h].vi, codec |-> L.obs[h].codec, ne |-> L.obs[h].ne,
                                          check |-> vs[g].check, verdict |-> vs[g].verdict, detail |-> vs[g].detail]]]
      all == Concat(per)
      benign == UNION {judged[h].bn : h \in 1..Len(L.obs)}
  IN [cid |-> L.cid, n |-> Len(all),
      ok |-> Len(SelectSeq(all, LAMBDA r : r.verdict = "ok")),
      other |-> SelectSeq(all, LAMBDA r : r.verdict # "ok"),
      benign |-> SetToSeq(benign)]

Emit(r) ==
  Serialize(ToJson(r) \o "\n", IOEnv.VERDICT_FILE,
            [format |-> "TXT", charset |-> "UTF-8", openOptions |-> <<"WRITE", "CREATE", "APPEND">>]).exitValue = 0

Init == i = 1
Next == /\ i <= Len(Tr)
        /\ Emit(LineReport(Tr[i]))
        /\ i' = i + 1
Spec == Init /\ [][Next]_vars

TraceAccepted == TLCGet("stats").diameter - 1 = Len(Tr)

=============================================================================
